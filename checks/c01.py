"""C01 - terminal display equals the logical screen after Show, Sync and resize."""
from checks import screenfam


def run(ctx):
    q = ctx.tier == "quick"
    screenfam.run_screen(ctx, "C01", mix="draw", model=(2, 3, 3, 12) if q else (4, 4, 3, 1))
    ctx.assumptions += [
        "the reference terminal is spec/Term.tla (deferred wrap, orphaned wide halves become garbage, BCE erase)",
        "rune widths for the terminal come from the harness's Unicode tables; East-Asian-ambiguous runes count as narrow",
        "nearest-palette sets come from the harness's own CIE76 code (ties accepted)",
    ]
    ctx.finish("model_checking",
               rule="M: TScreenModel (transcribed draw algorithm over the reference terminal) for the terminal variants; every transition ending in a draw replayed on a real screen of that variant; seeded random histories (SetContent/Fill/Clear/SetStyle/ShowCursor/SetCursorStyle/LockRegion/Show/Sync/"
                    "window resize/corruption) on every ECMA-48-family entry, with and without direct colour; distinct = "
                    "distinct (terminal, operation sequence); non-trivial = contains a draw that is checked")

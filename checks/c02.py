"""C02 - input decoding is independent of read chunking and consumes every byte."""
from checks import inputfam


def run(ctx):
    q = ctx.tier == "quick"
    inputfam.run_input(ctx, "C02", "chunk", 40 if q else 120, exhaustive=not q)
    ctx.finish("exploration",
               rule="per registered terminal: token strings (keys of that terminal, Alt-prefixed keys, UTF-8 text, SGR/X11 mouse, "
                    "paste brackets, focus reports, OSC 52 replies with BEL/ST, control bytes, DEL, trailing ESC) and random byte "
                    "strings; each decoded in one read, byte at a time, and under 1-/2-cut partitions (all of them for short "
                    "strings in the thorough tier); distinct = distinct byte strings")

"""C02 - input decoding is independent of read chunking and consumes every byte."""
from checks import inputfam


def run(ctx):
    q = ctx.tier == "quick"
    # M: the tokenizer (Tokenizer.tla: the loop and its six parsers) over two small alphabets: all strings x partitions
    foc = dict(MaxLen=4 if q else 5, MaxCuts=8, ALPHA='"focus"', LEAD='"any"', FocusGuard="TRUE", SgrStrict="TRUE")
    mou = dict(MaxLen=7, MaxCuts=1 if q else 3, ALPHA='"mouse"', LEAD='"esc"' if q else '"any"', FocusGuard="TRUE", SgrStrict="TRUE")
    ctx.model("InputModel", constants=foc, timeout=3000)
    ctx.model("InputModel", constants=mou, timeout=3400)
    bad = ctx.tlc("InputModel", workers=8, timeout=600, constants=dict(foc, MaxLen=4, FocusGuard="FALSE"))
    ctx.cov["model_without_focus_guard_refuted"] = "ChunkIndependent is violated" in bad["out"]
    bad = ctx.tlc("InputModel", workers=8, timeout=900, constants=dict(mou, MaxCuts=0, LEAD='"esc"', SgrStrict="FALSE"))
    ctx.cov["model_of_original_sgr_scan_refuted"] = "NoSwallow is violated" in bad["out"]
    s, r = inputfam.run_input(ctx, "C02", "chunk", 40 if q else 120, exhaustive=not q, extra=["--alpha", 4 if q else 5])
    ctx.cov["traces_validated_against_impl"] = s["histories"] + s.get("model_space_runs", 0)
    ctx.cov["model_space_runs_replayed"] = s.get("model_space_runs", 0)
    ctx.finish("model_checking",
               rule="M: InputModel.tla over Tokenizer.tla - every byte string (<= 4/5) over {ESC [ O a I} x every partition and every string (<= 7) over {ESC [ < ; M a} x partitions with <= 1/3 cuts: ChunkIndependent/Drained/Progress/NoSwallow; the as-found loop (no focus guard; SGR scan skipping foreign bytes) is refuted; the first space replayed through the real decoder on rxvt and xterm; V: the single-read decode of every 7-bit string is predicted by the tokenizer model from the terminal's real key table and compared; per registered terminal: token strings (keys of that terminal, Alt-prefixed keys, UTF-8 text, SGR/X11 mouse, "
                    "paste brackets, focus reports, OSC 52 replies with BEL/ST, control bytes, DEL, trailing ESC) and random byte "
                    "strings; each decoded in one read, byte at a time, and under 1-/2-cut partitions (all of them for short "
                    "strings in the thorough tier); distinct = distinct byte strings")

"""C02 - input decoding is independent of read chunking and consumes every byte."""
from checks import inputfam


def run(ctx):
    q = ctx.tier == "quick"
    # M: the tokenizer loop over a small alphabet with a key that extends the focus report: all strings x all partitions
    ctx.model("InputModel", constants=dict(MaxLen=4 if q else 5, FocusGuard="TRUE"), timeout=3000)
    bad = ctx.tlc("InputModel", workers=8, timeout=600, constants=dict(MaxLen=4, FocusGuard="FALSE"))
    ctx.cov["model_without_focus_guard_refuted"] = "ChunkIndependent is violated" in bad["out"]
    s, r = inputfam.run_input(ctx, "C02", "chunk", 40 if q else 120, exhaustive=not q, extra=["--alpha", 4 if q else 5])
    ctx.cov["traces_validated_against_impl"] = s["histories"] + s.get("model_space_runs", 0)
    ctx.cov["model_space_runs_replayed"] = s.get("model_space_runs", 0)
    ctx.finish("model_checking",
               rule="M: InputModel.tla - every byte string (<= 4/5) over {ESC [ O a I} x every partition, ChunkIndependent/Drained/Progress; the same space replayed through the real decoder on rxvt and xterm; per registered terminal: token strings (keys of that terminal, Alt-prefixed keys, UTF-8 text, SGR/X11 mouse, "
                    "paste brackets, focus reports, OSC 52 replies with BEL/ST, control bytes, DEL, trailing ESC) and random byte "
                    "strings; each decoded in one read, byte at a time, and under 1-/2-cut partitions (all of them for short "
                    "strings in the thorough tier); distinct = distinct byte strings")

"""C03 - every key sequence of every terminal decodes to its key and modifiers."""
from lib import vlib


def run(ctx):
    q = ctx.tier == "quick"
    ctx.build_harness()
    tf = ctx.work + "/trace.ndjson"
    s, _ = ctx.run_vh(["input", "--mode", "keys", "--n", 60 if q else 3000, "--seed", ctx.seed, "--out", tf], timeout=3000)
    r = ctx.validate_parallel("InputTrace", tf, parts=16, expect_events=s.get("events"), timeout=3400)
    ctx.add_violations([d for d in r["devs"] if d["tag"].startswith("C03.")], tf)
    ctx.cov.update(evaluations=s["ops"], distinct_nontrivial=s["distinct"], events_validated=r["lines"],
                   terminals=s["terms"], table_entries=s["distinct"], exhaustive=True)
    ctx.samples.extend(s.get("samples", []))
    ctx.assumptions += ["the set of acceptable (key, modifiers) per sequence is computed in TLA+ (Input.tla: Acceptable) from the "
                        "description's key capabilities, the xterm modifier encoding and tcell's documented keypad aliases"]
    ctx.finish("exploration",
               rule="exhaustive over all registered names: every key-table entry, every key capability sequence decoded alone "
                    "(8 times), with an ESC prefix, a lone ESC, and seeded pairs concatenated; distinct = table entries")

"""C04 - Fini/Suspend restore every terminal mode; Resume re-applies enabled ones; tty contract."""
from checks import screenfam


def run(ctx):
    screenfam.run_screen(ctx, "C04", mix="modes", per_term=(4, 40))
    ctx.assumptions += ["mode registers are those of spec/Term.tla; the hyperlink state at exit is not required to be closed"]
    ctx.finish("exploration",
               rule="seeded random histories mixing mode calls (mouse/paste/focus/cursor style/title), drawing, "
                    "Suspend/Resume cycles, ending in Fini or Suspend, on every ECMA-48-family entry with TCELL_ALTSCREEN "
                    "set or not; distinct = distinct (terminal, operation sequence)")

"""C04 - Fini/Suspend restore every terminal mode; Resume re-applies enabled ones; tty contract."""
from checks import screenfam
from lib import vlib

# terminal variants of ModesModel and a built-in entry of each kind to replay its behaviours on
VARIANTS = [
    ("xterm-family", dict(HasMouse="TRUE", HasShapes="TRUE", HasCivis="TRUE", HasRmam="TRUE", HasTitle="TRUE"), "xterm-256color"),
    ("console", dict(HasMouse="TRUE", HasShapes="TRUE", HasCivis="TRUE", HasRmam="TRUE", HasTitle="FALSE"), "linux"),
    ("vt100", dict(HasMouse="FALSE", HasShapes="FALSE", HasCivis="FALSE", HasRmam="TRUE", HasTitle="FALSE"), "vt100"),
    ("vt220", dict(HasMouse="FALSE", HasShapes="FALSE", HasCivis="TRUE", HasRmam="TRUE", HasTitle="FALSE"), "vt220"),
    ("ansi", dict(HasMouse="FALSE", HasShapes="FALSE", HasCivis="FALSE", HasRmam="FALSE", HasTitle="FALSE"), "ansi"),
]


def model_and_replay(ctx, mops, gops, every):
    """M: ModesModel (engage / disengage / mode calls over the terminal's mode registers) exhaustively for each terminal
    variant, with and without the alternate screen; G: the history of every transition into Suspend / Resume / Fini and
    every full-length behaviour replayed on a real screen of that variant, validated by TScreenTrace."""
    nb_total = 0
    for name, consts, term in VARIANTS:
        for alt in ("TRUE", "FALSE"):
            ctx.model("ModesModel", constants=dict(consts, MaxOps=mops, AltScreen=alt), timeout=1800)
        g = ctx.tlc("ModesModel", workers=16, timeout=1800, constants=dict(consts, MaxOps=gops, GEN="TRUE"))
        if not g["ok"]:
            raise vlib.MachineryError("behaviour generation failed for variant " + name)
        beh = ctx.work + "/modes_%s.ndjson" % name
        nb = ctx.behaviours(g, beh)
        if nb == 0:
            raise vlib.MachineryError("ModesModel generated no behaviours")
        tf = ctx.work + "/trace_modes_%s.ndjson" % name
        s, _ = ctx.run_vh(["screen", "--behaviours", beh, "--behevery", every, "--terms", term, "--random", 0, "--seed", ctx.seed,
                           "--nopad", "--out", tf], timeout=3000)
        r = ctx.validate_parallel("TScreenTrace", tf, parts=12, expect_events=s.get("events"), timeout=3400)
        mine = [d for d in r["devs"] if d["tag"].startswith("C04.")]
        for d in mine:
            d["variant"] = name
        ctx.add_violations(mine, tf)
        nb_total += s["histories"]
    # the two defects of the code as it was found are refuted by the model (evidence that it discriminates)
    for key, val in (("ShapeFromSent", "FALSE"), ("WriteWhenIdle", "TRUE")):
        bad = ctx.tlc("ModesModel", workers=8, timeout=600, constants=dict(VARIANTS[0][1], MaxOps=6, **{key: val}))
        ctx.cov["model_of_original_code_refuted_" + key] = "is violated" in bad["out"]
        if "is violated" not in bad["out"]:
            raise vlib.MachineryError("ModesModel no longer refutes %s=%s" % (key, val))
    ctx.cov["behaviours_replayed"] = nb_total


def run(ctx):
    q = ctx.tier == "quick"
    ctx.build_harness()
    model_and_replay(ctx, 8 if q else 10, 4 if q else 5, 5 if q else 1)
    screenfam.run_screen(ctx, "C04", mix="modes", per_term=(4, 40))
    ctx.assumptions += ["mode registers are those of spec/Term.tla; the hyperlink state at exit is not required to be closed",
                        "ModesModel abstracts drawing to 'a styled cell was painted' and the cursor to shown/hidden with a shape"]
    ctx.finish("model_checking",
               rule="M: ModesModel (transcribed engage/disengage/mode calls over the reference terminal's mode registers): "
                    "RestoredOnLeave, ModesOnResume, OwnedWhileRunning for five terminal variants (xterm family, linux console, vt100, vt220, ansi) x alternate screen on/off; "
                    "G: the history of every model transition into Suspend/Resume/Fini replayed on a real screen and validated; "
                    "V: seeded random histories mixing mode calls (mouse/paste/focus/cursor style/title), drawing, "
                    "Suspend/Resume cycles, ending in Fini or Suspend, on every ECMA-48-family entry with TCELL_ALTSCREEN "
                    "set or not; distinct = distinct (terminal, operation sequence)")

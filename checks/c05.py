"""C05 - events are delivered exactly once, in order, with back-pressure not loss."""
from lib import vlib


def run(ctx):
    q = ctx.tier == "quick"
    ctx.build_harness()
    consts = dict(KC=1, EQ=1 if q else 2, NChunks=2 if q else 3, EventsPer=2, NPosts=2, NResizes=1, MaxCycles=0, FIXED="TRUE")
    ctx.model("Pipe", cfg="PipeSafety.cfg", constants=consts, timeout=3400)
    tf = ctx.work + "/trace.ndjson"
    s, _ = ctx.run_vh(["pipe", "--mode", "delivery", "--runs", 12 if q else 150, "--seed", ctx.seed, "--out", tf], timeout=3400)
    r = ctx.validate_parallel("PipeTrace", tf, parts=8 if q else 16, expect_events=s.get("events"), timeout=3000)
    ctx.add_violations([d for d in r["devs"] if d["tag"].startswith("C05.")], tf)
    # the same delivery runs with tcell's real device Tty on a pseudo-terminal (the harness types at the master side)
    tfp = ctx.work + "/trace_pty.ndjson"
    sp, _ = ctx.run_vh(["pipe", "--mode", "delivery", "--runs", 6 if q else 60, "--seed", ctx.seed + 1, "--tty", "pty", "--out", tfp],
                       timeout=3400)
    if sp.get("skipped"):
        ctx.assumptions.append("no pseudo-terminal available here (%s): the device-Tty runs were skipped" % sp["skipped"])
    else:
        rp = ctx.validate_parallel("PipeTrace", tfp, parts=6 if q else 12, expect_events=sp.get("events"), timeout=3000)
        ctx.add_violations([d for d in rp["devs"] if d["tag"].startswith("C05.")], tfp, label="pty")
    ctx.cov["pty_histories"] = sp["histories"]
    ctx.cov.update(traces_validated_against_impl=s["histories"], evaluations=s["ops"], distinct_nontrivial=s["distinct"],
                   events_validated=r["lines"])
    ctx.samples.extend(s.get("samples", []))
    ctx.assumptions += ["the trace holds external events only (inject, post with its result, poll), ordered by one sequence number "
                        "taken under the log's lock; per-producer order is all the monitor needs",
                        "When() bounds use the harness's monotonic clock around delivery; HasPendingEvent=true followed by a "
                        "PollEvent that takes more than 200 ms counts as blocking"]
    ctx.finish("model_checking",
               rule="M: Pipe.tla safety invariants (InOrderOnce, PostsOK, NoLoss, NothingLostWithoutShutdown) over all "
                    "interleavings; code: seeded runs with sequence-numbered keys in chunks of 1-3, focus reports, 1-3 posting "
                    "goroutines, resize notifications, and a poller (PollEvent or ChannelEvents) that pauses at random, "
                    "including pauses long enough to fill both queues; run on the fake Tty and on the real device Tty over a pty")

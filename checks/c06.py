"""C06 - Fini and Suspend always return; the screen is inert afterwards."""
from lib import vlib


def apalache_inductive(ctx):
    """Apalache: the safety invariants of the device-Tty model are inductive (any number of Start/Stop cycles and
    signals; pending input up to two bytes in the arbitrary pre-state).  Extra evidence only: None if Apalache cannot run."""
    import os
    import shutil
    import subprocess
    if not shutil.which("apalache-mc"):
        return None
    d = os.path.join(ctx.work, "apalache")
    os.makedirs(d, exist_ok=True)
    shutil.copy(os.path.join(vlib.VERIF, "spec", "apalache", "DevTtyInd.tla"), d)
    ok = True
    for init, length in (("Init", "0"), ("IndInit", "1")):
        try:
            r = subprocess.run(["timeout", "600", "apalache-mc", "check", "--init=" + init, "--inv=IndInv", "--length=" + length,
                                "--out-dir=" + os.path.join(d, "out"), "DevTtyInd.tla"], cwd=d, stdout=subprocess.PIPE,
                               stderr=subprocess.STDOUT, text=True)
        except Exception:
            return None
        if "The outcome is: NoError" not in r.stdout:
            if "The outcome is: Error" in r.stdout:
                ok = False
            else:
                return None
    return ok


def run(ctx):
    q = ctx.tier == "quick"
    ctx.build_harness()
    consts = dict(KC=1, EQ=1, NChunks=2 if q else 3, EventsPer=2, NPosts=1, NResizes=1, MaxCycles=1, FIXED="TRUE")
    ctx.model("Pipe", constants=consts, timeout=3400)
    # the same model with the three blocking sends as they were found must show the hang (the model discriminates)
    bad = ctx.tlc("Pipe", workers=16, timeout=600, constants=dict(consts, FIXED="FALSE", NChunks=2))
    ctx.cov["model_without_stop_alternative_refuted"] = "ShutdownReturns was violated" in bad["out"]
    tf = ctx.work + "/trace.ndjson"
    s, _ = ctx.run_vh(["pipe", "--mode", "shutdown", "--runs", 2 if q else 12, "--seed", ctx.seed, "--out", tf], timeout=3400)
    r = ctx.validate("PipeTrace", tf, expect_events=s.get("events"), timeout=3000)
    ctx.add_violations([d for d in r["devs"] if d["tag"].startswith("C06.")], tf)
    # the same start states with tcell's real device Tty (tty_unix.go) on a pseudo-terminal: a read error is a hang-up
    tfp = ctx.work + "/trace_pty.ndjson"
    sp, _ = ctx.run_vh(["pipe", "--mode", "shutdown", "--runs", 1 if q else 6, "--seed", ctx.seed, "--tty", "pty", "--out", tfp],
                       timeout=3400)
    if sp.get("skipped"):
        ctx.assumptions.append("no pseudo-terminal available here (%s): the device-Tty runs were skipped" % sp["skipped"])
    else:
        rp = ctx.validate("PipeTrace", tfp, expect_events=sp.get("events"), timeout=3000, subdir="pty")
        ctx.add_violations([d for d in rp["devs"] if d["tag"].startswith("C06.")], tfp, label="pty")
    # the device Tty contract by itself: model (DevTty.tla) and its calls on a pseudo-terminal (DevTtyTrace.tla);
    # a Drain that leaves the reader blocked or a Stop that does not return is what makes Fini/Suspend hang
    ctx.model("DevTty", timeout=600)
    tfd = ctx.work + "/trace_devtty.ndjson"
    sd, _ = ctx.run_vh(["devtty", "--random", 16 if q else 120, "--ops", 30, "--seed", ctx.seed, "--out", tfd], timeout=3400)
    rd = dict(devs=[], lines=0)
    if not sd.get("skipped"):
        rd = ctx.validate("DevTtyTrace", tfd, expect_events=sd.get("events"), timeout=3000, subdir="devtty")
    ctx.add_violations([d for d in rd["devs"] if d["tag"].startswith("C06.")], tfd, label="devtty")
    extras = [d for d in rd["devs"] if d["tag"].startswith("EXTRA.")]
    for d in extras[:10]:
        vlib.log("  note (not a verdict): %s" % vlib.sig(d))
    if not q:
        ctx.cov["apalache_devtty_invariants_inductive"] = apalache_inductive(ctx)
    ctx.cov.update(pty_histories=sp["histories"], devtty_histories=sd["histories"], devtty_events=rd["lines"],
                   extra_monitor_reports=len(extras))
    ctx.cov.update(traces_validated_against_impl=s["histories"], evaluations=s["ops"], distinct_nontrivial=s["distinct"],
                   events_validated=r["lines"])
    ctx.samples.extend(s.get("samples", []))
    ctx.assumptions += ["liveness is proved for the model (small capacities, finite environment budgets, weak fairness of the "
                        "library's own steps, none for the poller); for the code it is observed under a two-deadline watchdog "
                        "(1.5 s + 3.5 s) on constructed start states, each repeated because Go's select is random",
                        "exploration stops after four watchdog expiries in one process (wedged goroutines accumulate)"]
    ctx.finish("model_checking",
               rule="M: Pipe.tla, all interleavings of input loop, main loop, poller, poster, resize, read error, Fini/Suspend/"
                    "Resume with ShutdownReturns under fairness; code: start states = eventQ fill {0,5,10} x backed-up chunks "
                    "{0,1,3,12,30} x read error x pending resize (x blocked poller / PostEventWait), each closed by Fini, "
                    "Suspend, Suspend;Resume;Fini and Fini;Fini, followed by the post-Fini calls; on the fake Tty and on the real device Tty "
                    "over a pty; plus the device Tty contract itself (raw mode, input, drain, stop/restore, resize callback) "
                    "as model and as trace")

"""C07 - parameterized capability strings evaluate per terminfo(5)."""
from lib import vlib


def run(ctx):
    q = ctx.tier == "quick"
    ctx.build_harness()
    depth = 1 if q else 2
    ctx.model("TParmModel", constants=dict(Depth=depth, GEN="FALSE"), timeout=3000)
    g = ctx.tlc("TParmModel", workers=16, timeout=3000, constants=dict(Depth=depth, GEN="TRUE"))
    if not g["ok"]:
        raise vlib.MachineryError("behaviour generation failed")
    beh = ctx.work + "/beh.ndjson"
    nb = ctx.behaviours(g, beh)
    tf = ctx.work + "/trace.ndjson"
    s, _ = ctx.run_vh(["tparm", "--behaviours", beh, "--gen", 1500 if q else 30000, "--robust", 2000 if q else 50000,
                       "--grid", 6 if q else 24, "--seed", ctx.seed, "--out", tf] + ([] if q else ["--full"]), timeout=3000)
    r = ctx.validate_parallel("TParmTrace", tf, parts=16, expect_events=s.get("events"), timeout=3400)
    ctx.add_violations([d for d in r["devs"] if d["tag"].startswith("C07.")], tf)
    ctx.cov.update(traces_validated_against_impl=s["ops"], evaluations=s["ops"], distinct_nontrivial=s["distinct"],
                   behaviours_replayed=nb, events_validated=r["lines"], calls_by_kind=s["kinds"])
    ctx.samples.extend(s.get("samples", []))
    ctx.assumptions += ["the reference is spec/TParm.tla, written from terminfo(5); it was cross-checked against ncurses "
                        "(python curses.tparm) during development: 1083 generated programs agree except the '%:+d' form, "
                        "which the generator does not use",
                        "malformed programs are only required not to panic or hang"]
    ctx.finish("model_checking",
               rule="M: every program of the depth-bounded conditional grammar x all parameter pairs over {0,1,2}, one token per "
                    "step; each completed run is replayed through the real TParm. Plus every parameterized string of the "
                    "database and tcell's hard-coded sequences over a parameter grid, seeded grammar-generated programs "
                    "(depth<=3, int/string params, static and dynamic variables), and arbitrary byte strings; distinct = programs")

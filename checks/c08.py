"""C08 - CellBuffer stores what was set; dirty never misses a change.

M  CellBufModel: transcription of cell.go run in lock step with the requirement
   operators; invariants Refines / Consistent / LockedClean, action property ResizeKeeps.
G  the same model prints one shortest history per transition of its state graph.
H  `vh cellbuf` replays those histories and seeded random ones on the real
   tcell.CellBuffer, logging GetContent+Dirty of every cell after every call.
V  CellBufTrace validates the log against the requirement operators.
"""
from lib import vlib


def run(ctx):
    q = ctx.tier == "quick"
    ctx.build_harness()
    if ctx.replay:
        tf = ctx.work + "/trace.ndjson"
        s, _ = ctx.run_vh(["cellbuf", "--replay", vlib.os.path.join(vlib.VERIF, ctx.replay), "--out", tf])
        r = ctx.validate("CellBufTrace", tf, expect_events=s.get("events"))
        ctx.add_violations(r["devs"], tf)
        ctx.cov.update(evaluations=s.get("ops", 0), distinct_nontrivial=2)
        ctx.finish("model_checking", rule="replay of a stored history")
    # M
    m = ctx.model("CellBufModel", constants=dict(MaxW=2, MaxH=1 if q else 2, MaxOps=4, GEN="FALSE"),
                  timeout=3000)
    # G
    g = ctx.tlc("CellBufModel", workers=16, timeout=1800,
                constants=dict(MaxW=2, MaxH=1, MaxOps=3 if q else 4, GEN="TRUE"))
    if not g["ok"]:
        raise vlib.MachineryError("behaviour generation failed")
    beh = ctx.work + "/beh.ndjson"
    nb = ctx.behaviours(g, beh)
    # H
    tf = ctx.work + "/trace.ndjson"
    nrand = 300 if q else 3000
    s, _ = ctx.run_vh(["cellbuf", "--behaviours", beh, "--random", nrand, "--ops", 40,
                       "--seed", ctx.seed, "--out", tf])
    # V (split the log over parallel TLC processes for the thorough tier)
    r = ctx.validate_parallel("CellBufTrace", tf, parts=8 if q else 16, expect_events=s.get("events"), timeout=3000)
    ctx.add_violations(r["devs"], tf)
    ctx.cov.update(traces_validated_against_impl=s["histories"], evaluations=s["ops"],
                   distinct_nontrivial=s.get("distinct", s["histories"]), behaviours_replayed=nb,
                   random_histories=nrand, events_validated=r["lines"])
    ctx.samples.extend(s.get("samples", []))
    ctx.assumptions += [
        "width classes come from golang.org/x/text/width + Go's unicode tables (harness/runes); runes on which "
        "these give no clear answer are left unconstrained",
        "the model's Impl-operators transcribe cell.go by hand; the binding to the code is the replay of every "
        "generated history plus random histories, not the transcription",
    ]
    ctx.finish("model_checking",
               rule="histories = one shortest TLC behaviour per transition of CellBufModel's graph + seeded random "
                    "histories of 40 calls; distinct = distinct operation sequences; non-trivial = contains a "
                    "mutator on an in-range cell followed by an observation")

"""C09 - output stream well-formed; cell content cannot inject control bytes."""
from checks import screenfam
from lib import vlib


def run(ctx):
    q = ctx.tier == "quick"
    s, r = screenfam.run_screen(ctx, "C09", mix="draw", per_term=(3, 40))
    # code-point sweep: every selected code point as primary content (SetContent: even columns and the last
    # column; Fill) must leave a well-formed stream and - for the forbidden classes - a blank on the display
    swept, events = 0, 0
    plans = [("UTF-8", "xterm-256color"), ("ISO8859-1", "vt100")] if q else \
        [("UTF-8", "xterm-256color,vt100,linux"), ("ISO8859-1", "xterm-256color"), ("KOI8-R", "vt100")]
    for charset, terms in plans:
        tf = ctx.work + "/sweep_%s.ndjson" % charset
        s2, _ = ctx.run_vh(["screen", "--sweep", "quick" if q else "full", "--charset", charset, "--terms", terms,
                            "--seed", ctx.seed, "--out", tf], timeout=3400)
        r2 = ctx.validate_parallel("TScreenTrace", tf, parts=16, expect_events=s2.get("events"), timeout=3400)
        mine = [d for d in r2["devs"] if d["tag"].startswith("C09.") or d["tag"] == "C01.cell"]
        for d in mine:
            d["charset"] = charset
            if d["tag"] == "C01.cell":
                d["tag"] = "C09.not_blank_or_wrong_glyph"
        ctx.add_violations(mine, tf)
        swept += s2["ops"]
        events += r2["lines"]
    # legacy locales with combining marks (those the character set has, and those it lacks): nothing but the
    # character set's own bytes may be written - no substitution byte, no UTF-8
    for k, cs in enumerate(["ISO8859-1", "US-ASCII", "ISO8859-6"] if q else ["ISO8859-1", "US-ASCII", "ISO8859-6", "ISO8859-9", "KOI8-R", "EUC-JP"]):
        tf = ctx.work + "/legacy_%s.ndjson" % cs
        s3, _ = ctx.run_vh(["screen", "--charset", cs, "--mix", "legacy", "--terms", "xterm-256color,vt100,linux,vt220", "--random", 3 if q else 20,
                            "--ops", 30, "--seed", ctx.seed + 100 + k, "--out", tf], timeout=3000)
        r3 = ctx.validate_parallel("TScreenTrace", tf, parts=4 if q else 8, expect_events=s3.get("events"), timeout=3400)
        mine = [d for d in r3["devs"] if d["tag"].startswith("C09.") or d["tag"] == "C01.cell"]
        for d in mine:
            d["charset"] = cs
            if d["tag"] == "C01.cell":      # bytes that are not the cell's own encoding have reached the display
                d["tag"] = "C09.stray_or_wrong_bytes"
        ctx.add_violations(mine, tf)
        events += r3["lines"]
    ctx.cov["code_point_cells_swept"] = swept
    ctx.cov["events_validated"] += events
    ctx.cov["exhaustive"] = not q
    ctx.assumptions += ["rune classes come from Go's unicode tables and x/text/width; code points on which they give no clear "
                        "width (East-Asian-ambiguous counted narrow; unassigned, private use, spacing marks, emoji outside "
                        "Wide skipped) are not swept as printable content"]
    ctx.finish("exploration",
               rule="the C01 histories; plus the code-point sweep: all forbidden code points (C0, DEL, C1, Cf, Zl/Zp, Mn/Me, "
                    "surrogates, negative and > 0x10FFFF; a 1/7 sample above U+3000 in the quick tier) through SetContent "
                    "(incl. the last column) and Fill, and every 257th (quick) / every (thorough) other code point with an "
                    "agreed width through SetContent, under UTF-8 and one (quick) / two (thorough) 8-bit locales; every written block is lexed by "
                    "Term.tla and the display compared; plus random legacy-locale histories with combining marks")

"""C09 - output stream well-formed; cell content cannot inject control bytes."""
from checks import screenfam


def run(ctx):
    screenfam.run_screen(ctx, "C09", mix="draw", per_term=(3, 40))
    ctx.finish("exploration",
               rule="the C01 histories; every written block is lexed by Term.tla's ECMA-48 lexer")

"""C10 - concurrent use of one Screen from several goroutines is free of data races."""
import json
import os
import re
import subprocess

from lib import vlib


def parse_races(stderr):
    """Turns the Go race detector's reports (and fatal runtime errors) into trace events."""
    evs = []
    pair = "?"
    block = None
    for line in stderr.splitlines():
        if line.startswith("@@PAIR "):
            pair = line[7:].strip()
        elif line.startswith("WARNING: DATA RACE"):
            block = []
        elif line.startswith("==================") and block is not None and block:
            frames = [f for f in block if "gdamore/tcell/v2" in f and "harness" not in f]
            tops = []
            for f in frames:
                name = f.strip().split("(")[0].split("/")[-1] + ("()" if "(" in f else "")
                m = re.search(r"v2\.(\(\*?\w+\)\.)?(\w+)", f)
                if m:
                    tops.append((m.group(1) or "") + m.group(2))
            if tops:
                evs.append(dict(ev="Race", pair=pair, frames=sorted(set(tops))[:8]))
            else:   # a race inside the harness itself would be a machinery bug, not a verdict
                evs.append(dict(ev="HarnessRace", pair=pair))
            block = None
        elif block is not None:
            block.append(line)
        elif line.startswith("fatal error:") or line.startswith("panic:"):
            evs.append(dict(ev="Fatal", pair=pair, msg=line.strip()[:200]))
    return evs


def run(ctx):
    q = ctx.tier == "quick"
    ctx.model("ScreenLock", timeout=600)
    bad = ctx.tlc("ScreenLock", workers=8, timeout=600, constants=dict(Protect="FALSE"))
    ctx.cov["model_with_unlocked_bodies_refuted"] = "Exclusive is violated" in bad["out"]
    ctx.build_harness()
    tf = ctx.work + "/trace.ndjson"
    s, _ = ctx.run_vh(["race", "--mode", "lock", "--seed", ctx.seed, "--out", tf], timeout=600)
    events = s["events"]
    # race-detector build: method pairs run concurrently; its reports become Race events
    rb = ctx.build_harness(race=True, name="vhrace")
    extra = []
    pairs_run, start, restarts = 0, 0, 0
    # the fallback map and the encoder only matter in a non-UTF-8 locale: the pairs around them always run there
    core = ["CanDisplay", "RegisterRuneFallback", "UnregisterRuneFallback", "Show", "Sync", "SetContent", "Beep", "SetSize", "Fill"]
    order = ["SetContent", "GetContent", "Fill", "Show", "Sync", "SetStyle", "ShowCursor", "SetCursorStyle", "Size", "EnableMouse",
             "EnablePaste", "EnableFocus", "SetTitle", "SetClipboard", "Beep", "SetSize", "CanDisplay", "RegisterRuneFallback",
             "UnregisterRuneFallback", "LockRegion", "Colors", "HasKey", "HasMouse", "CharacterSet", "PostEvent", "HasPendingEvent"]
    corepairs = ",".join("%s:%s" % (a, b) for i, a in enumerate(order) for b in order[i:] if a in core and b in core)
    plans = [("tty", "UTF-8", 3 if q else 1, ""), ("tty", "ISO8859-1", 1, corepairs)] \
        + ([] if q else [("tty", "ISO8859-1", 1, ""), ("tty", "US-ASCII", 1, corepairs)]) \
        + [("sim", "ISO8859-1", 1, "")] + ([] if q else [("sim", "UTF-8", 1, "")]) + [("pty", "UTF-8", 1, "")]
    for kind, charset, stride, pairs in plans:
        start = 0
        while True:
            tf2 = ctx.work + "/race.ndjson"
            s2, _ = ctx.run_vh(["race", "--mode", "race", "--iters", (50 if kind == "sim" else 15 if kind == "pty" else 25) if q else (40 if kind == "pty" else 150), "--seed", ctx.seed, "--start", start,
                                "--stride", stride, "--charset", charset, "--pairs", pairs, "--screen", kind, "--out", tf2],
                               timeout=300 if kind == "pty" else 3000, env={"GORACE": "halt_on_error=0"}, binary=rb, check=False)
            err = s2.get("_stderr", "")
            extra += parse_races(err)
            if s2.get("skipped"):
                ctx.assumptions.append("no pseudo-terminal available here (%s): the device-Tty pairs were skipped" % s2["skipped"])
                break
            idx = [int(x) for x in re.findall(r"@@IDX (\d+)", err)]
            pairs_run += len(idx)
            if s2["_rc"] == 0 or not idx or restarts > 6:
                break
            start = idx[-1]          # the pair that killed the process is not retried
            restarts += 1
    if any(e["ev"] == "HarnessRace" for e in extra):
        raise vlib.MachineryError("the race detector reported a race with no tcell frame (inside the harness)")
    with open(tf, "a") as f:
        f.write(json.dumps({"ev": "Reset"}) + "\n")
        for e in extra:
            f.write(json.dumps(e) + "\n")
    r = ctx.validate("ScreenLockTrace", tf, expect_events=events + 1 + len(extra), timeout=3000)
    ctx.add_violations([d for d in r["devs"] if d["tag"].startswith("C10.")], tf)
    ctx.cov.update(traces_validated_against_impl=s["histories"], evaluations=s["ops"] + pairs_run,
                   distinct_nontrivial=s["distinct"] + pairs_run, events_validated=r["lines"], method_pairs_under_race_detector=pairs_run,
                   race_reports=len([e for e in extra if e["ev"] == "Race"]), process_restarts=restarts,
                   explanation="lock-protocol conformance and Write-block contiguity are decided by TLC on a trace from the verif lock "
                               "hook; field-level data races cannot be seen through events, so the Go race detector observes "
                               "concurrent method pairs and each of its reports is a Race event that the trace spec rejects")
    ctx.samples.extend(s.get("samples", []))
    ctx.assumptions += ["the race clause rests on the Go race detector (a different instrument): a pair it does not report is "
                        "only 'not observed to race' on the schedules that occurred",
                        "Touches(m) in ScreenLock.tla lists which methods must hold the screen lock"]
    ctx.finish("other",
               rule="every Screen method called on three terminals with lock/unlock and Write events; all unordered pairs of 26 "
                    "methods (every 3rd in the quick tier) run concurrently with input and resize traffic under -race; "
                    "the same on a SimulationScreen with its five own calls added (31 methods, all pairs); Suspend/Resume cycles against drawing and "
                    "size calls on the real device Tty over a pty with SIGWINCH traffic")

"""C11 - typed and pasted text is delivered rune for rune."""
from checks import inputfam


def run(ctx):
    q = ctx.tier == "quick"
    inputfam.run_input(ctx, "C11", "text", 40 if q else 400, exhaustive=not q, parts=16)
    ctx.assumptions += ["source strings are encoded with the x/text encoder of the charset (trusted), independent instance"]
    ctx.finish("exploration",
               rule="per stateless charset (24) and 3 terminals: strings of 1-4 encodable printable runes (every sampled rune at "
                    "least once), optionally inside paste brackets / followed by a focus report, decoded whole, under every "
                    "single cut (short strings) and byte at a time; expected events are built in TLA+ from the source runes")

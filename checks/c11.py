"""C11 - typed and pasted text is delivered rune for rune."""
from checks import inputfam
from lib import vlib


def run(ctx):
    q = ctx.tier == "quick"
    inputfam.run_input(ctx, "C11", "text", 40 if q else 400, exhaustive=not q, parts=16)
    # live screen: a paste of several hundred three-byte characters read in 128-byte pieces (which end inside
    # characters) by an application that polls slowly, on the fake Tty and on the real device Tty over a pty
    for k, tty in enumerate(["fake", "pty"]):
        tf = ctx.work + "/paste_%s.ndjson" % tty
        s, _ = ctx.run_vh(["pipe", "--mode", "delivery", "--bulk", "--runs", 3 if q else 20, "--seed", ctx.seed + k, "--tty", tty, "--out", tf],
                          timeout=3400)
        if s.get("skipped"):
            ctx.assumptions.append("no pseudo-terminal available here (%s): the device-Tty paste runs were skipped" % s["skipped"])
            continue
        r = ctx.validate_parallel("PipeTrace", tf, parts=4, expect_events=s.get("events"), timeout=3000)
        mine = [d for d in r["devs"] if d["tag"] in ("C05.order", "C05.lost")]
        for d in mine:
            d["tag"] = "C11.paste_" + d["tag"].split(".")[1]
            d["tty"] = tty
        ctx.add_violations(mine, tf, label="paste-" + tty)
        ctx.cov["paste_runs_" + tty] = s["histories"]
    # a program that does not link tcell/encoding: the charsets tcell always registers (UTF-8, US-ASCII and their aliases)
    import os
    import subprocess
    bare = os.path.join(ctx.work, "vhbare")
    b = subprocess.run(["go", "build"] + vlib.modfile_args(ctx.work) + ["-tags", "verif", "-o", bare, "./cmd/vhbare"], cwd=vlib.HARNESS,
                       env=dict(os.environ, **vlib.GOENV), stdout=subprocess.PIPE, stderr=subprocess.STDOUT, text=True)
    if b.returncode != 0:
        vlib.log(b.stdout)
        raise vlib.MachineryError("bare harness does not build")
    tfb = ctx.work + "/bare.ndjson"
    sb, _ = ctx.run_vh([tfb], binary=bare, timeout=600)
    rb = ctx.validate("InputTrace", tfb, expect_events=sb.get("events"), timeout=600, subdir="bare")
    ctx.add_violations([d for d in rb["devs"] if d["tag"].startswith("C11.")], tfb, label="bare")
    ctx.cov["bare_locale_settings"] = sb.get("histories")
    ctx.assumptions += ["source strings are encoded with the x/text encoder of the charset (trusted), independent instance"]
    ctx.finish("exploration",
               rule="per stateless charset (24) and 3 terminals: strings of 1-4 encodable printable runes (every sampled rune at "
                    "least once), optionally inside paste brackets / followed by a focus report, decoded whole, under every "
                    "single cut (short strings) and byte at a time; expected events are built in TLA+ from the source runes; Init under 22 locale settings; long pastes through a live screen to a slow poller")

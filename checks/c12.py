"""C12 - mouse reports decode to the right position, buttons and modifiers."""
from checks import inputfam


def run(ctx):
    q = ctx.tier == "quick"
    inputfam.run_input(ctx, "C12", "mouse", 10 if q else 400)
    ctx.cov["exhaustive"] = True
    ctx.finish("exploration",
               rule="per mouse-capable terminal: all SGR button codes 0..255 x finals M/m x boundary coordinates x 7-/8-bit CSI, "
                    "all legacy X11 button bytes, and seeded press/motion/wheel/release sequences on one decoder; the expected "
                    "event is computed in TLA+ (Input.tla: MouseExpect) from the xterm protocol")

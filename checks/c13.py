"""C13 - Show() redraws only cells whose appearance changed; locked cells never."""
from checks import screenfam


def run(ctx):
    screenfam.run_screen(ctx, "C13", mix="draw", per_term=(4, 40))
    ctx.finish("exploration",
               rule="the C01 histories (which re-store identical content and lock/unlock random regions); per Show the cells "
                    "stamped by the reference terminal are compared with the allowed set computed from the logged calls")

"""C13 - Show() redraws only cells whose appearance changed; locked cells never."""
from checks import screenfam


def run(ctx):
    q = ctx.tier == "quick"
    screenfam.run_screen(ctx, "C13", mix="draw", per_term=(4, 40), model=(1, 3, 3, 12) if q else (4, 4, 3, 1))
    ctx.finish("model_checking",
               rule="the C01 histories (which re-store identical content and lock/unlock random regions); per Show the cells "
                    "stamped by the reference terminal are compared with the allowed set computed from the logged calls")

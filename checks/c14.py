"""C14 - built-in terminal database complete, well-formed; lookups stable."""


def run(ctx):
    q = ctx.tier == "quick"
    ctx.build_harness()
    tf = ctx.work + "/trace.ndjson"
    s, _ = ctx.run_vh(["termdb", "--pairs", 3000 if q else 0, "--seed", ctx.seed, "--out", tf], timeout=3000)
    r = ctx.validate_parallel("TermDBTrace", tf, parts=12 if q else 16, expect_events=s.get("events"), timeout=3400)
    ctx.add_violations([d for d in r["devs"] if d["tag"].startswith("C14.")], tf)
    ctx.cov.update(evaluations=s["ops"], distinct_nontrivial=s["distinct"], events_validated=r["lines"],
                   entries=s["entries"], candidate_names=s["names"], exhaustive=not q)
    ctx.samples.extend(s.get("samples", []))
    ctx.assumptions += ["a lookup result is compared on the fields a lookup may synthesize plus a digest of all other fields",
                        "each ordered pair starts from a database restored with AddTerminfo from a snapshot taken before any lookup",
                        "tcell.LookupTerminfo's infocmp fallback is not exercised (terminfo.LookupTerminfo is)"]
    ctx.finish("exploration",
               rule="static: every registered name; dynamic: ordered pairs (A,B) of lookups among all registered names, their "
                    "-color/-88color/-256color/-truecolor variants and unknown names, under 7 COLORTERM/TCELL_TRUECOLOR settings "
                    "(all pairs in the thorough tier), each validated against Synth(original db, name, env)")

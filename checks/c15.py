"""C15 - TPuts strips only padding; TGoto and TColor are right for every terminal."""
from lib import vlib


def run(ctx):
    q = ctx.tier == "quick"
    ctx.build_harness()
    tf = ctx.work + "/trace.ndjson"
    s, _ = ctx.run_vh(["tparm", "--mode", "tputs", "--seed", ctx.seed, "--out", tf] + ([] if q else ["--full"]), timeout=3000)
    r = ctx.validate_parallel("TParmTrace", tf, parts=16, expect_events=s.get("events"), timeout=3400)
    ctx.add_violations([d for d in r["devs"] if d["tag"].startswith("C15.")], tf)
    ctx.cov.update(evaluations=s["ops"], distinct_nontrivial=s["distinct"], events_validated=r["lines"], terminals=s["histories"],
                   exhaustive=True)
    ctx.samples.extend(s.get("samples", []))
    ctx.assumptions += ["sleeping is observed in two coarse cases only (200 ms with / without a pad character)",
                        "the addressing convention of a terminal is chosen from the first bytes of its cup string; the expected "
                        "string is then built in TLA+ (TPuts.tla: GotoExpected); colour strings are decoded by the reference terminal"]
    ctx.finish("exploration",
               rule="all strings over {$ < > . 5 0 * / a} up to length 5 (quick) / 6 (thorough) plus seeded longer ones through the "
                    "real TPuts; TGoto of every registered terminal over a boundary-dense grid (0..300); TColor over -1..300 "
                    "boundary values; distinct = distinct TPuts inputs")

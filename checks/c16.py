"""C16 - colour table, names, conversions exact; FindColor optimal."""
from lib import vlib


def run(ctx):
    q = ctx.tier == "quick"
    ctx.build_harness()
    tf = ctx.work + "/trace.ndjson"
    s, _ = ctx.run_vh(["color", "--seed", ctx.seed, "--out", tf, "--cssnames", vlib.SPEC + "/CssNames.tla",
                       "--conv", 20000 if q else 300000, "--blocks", 64 if q else 2048, "--find", 3000 if q else 60000], timeout=3000)
    r = ctx.validate_parallel("ColorTrace", tf, parts=12 if q else 16, expect_events=s.get("events"), timeout=3400)
    mine = [d for d in r["devs"] if d["tag"].startswith("C16.") and not d["part"].startswith("EXTRA")]
    ctx.add_violations(mine, tf)
    ctx.cov.update(evaluations=s["ops"], distinct_nontrivial=s["distinct"], events_validated=r["lines"],
                   conversions=s["conversions"], extra_monitor_reports=len(r["devs"]) - len(mine))
    ctx.samples.extend(s.get("samples", []))
    ctx.assumptions += ["CIE76 distances are supplied per event by the harness's own sRGB->XYZ->CIELAB code (harness/lab), scaled "
                        "by 1e6; TLC decides membership and minimality with a tolerance of 5e-3 + 4e-4 d delta-E (near-ties depend on the digits of the sRGB matrix and white point)",
                        "the CSS table is spec/CssNames.tla, transcribed from golang.org/x/image/colornames",
                        "all 2^24 values are not swept: conversions cover channel sweeps, a 16^3 lattice, random values and "
                        "random 256-value blocks; FindColor is sampled (lattice, members, near-member values, random)"]
    ctx.finish("exploration",
               rule="exhaustive: 256 palette entries, every CSS name, every tcell name, special colours; sampled: conversions and "
                    "FindColor against the 8/16/88/256 palettes, random palettes and the empty palette")

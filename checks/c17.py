"""C17 - legacy charsets: output valid in the locale encoding, with faithful fallbacks."""
from lib import vlib

QUICK = ["ISO8859-1", "ISO8859-5", "ISO8859-6", "KOI8-R", "US-ASCII", "EUC-JP", "SHIFT_JIS", "GBK", "GB18030", "Big5"]
ALL = ["US-ASCII", "ISO8859-1", "ISO8859-2", "ISO8859-3", "ISO8859-4", "ISO8859-5", "ISO8859-6", "ISO8859-7", "ISO8859-8",
       "ISO8859-9", "ISO8859-10", "ISO8859-13", "ISO8859-14", "ISO8859-15", "ISO8859-16", "KOI8-R", "KOI8-U", "EUC-JP",
       "SHIFT_JIS", "EUC-KR", "GB18030", "GBK", "Big5", "UTF-8"]
TERMS = "vt100,xterm-256color,ansi,aixterm,linux,sun-color,rxvt-unicode,pcansi,vt220,screen"


def run(ctx):
    q = ctx.tier == "quick"
    ctx.build_harness()
    total = dict(histories=0, ops=0, distinct=0, shows=0, bytes=0, events=0)
    devs_all = []
    for k, cs in enumerate(QUICK if q else ALL):
        tf = ctx.work + "/trace_%d.ndjson" % k
        s, _ = ctx.run_vh(["screen", "--charset", cs, "--mix", "legacy", "--terms", TERMS, "--random", 3 if q else 25, "--ops", 30, "--localevia", ["LC_ALL", "LC_CTYPE", "LANG"][k % 3],
                           "--seed", ctx.seed + k, "--out", tf], timeout=3000)
        r = ctx.validate_parallel("TScreenTrace", tf, parts=4 if q else 8, expect_events=s.get("events"), timeout=3400)
        mine = [d for d in r["devs"] if d["tag"].startswith("C17.") or d["tag"] in ("C01.cell", "C09.malformed")]
        for d in mine:
            d["charset"] = cs
            if not d["tag"].startswith("C17."):
                d["tag"] = "C17." + d["tag"].split(".")[1]
        ctx.add_violations(mine, tf)
        for key in ("histories", "ops", "distinct", "shows", "bytes"):
            total[key] += s[key]
        total["events"] += r["lines"]
        if not ctx.samples:
            ctx.samples.extend(s.get("samples", [])[:2])
    ctx.cov.update(traces_validated_against_impl=total["histories"], evaluations=total["ops"], distinct_nontrivial=total["distinct"],
                   events_validated=total["events"], draws_checked=total["shows"], bytes_interpreted=total["bytes"],
                   charsets=len(QUICK if q else ALL))
    ctx.assumptions += ["the terminal decodes bytes with the table of the characters in use, produced by an independent encoder "
                        "instance of the charset; ACS glyph names come from the terminfo(5) table in TScreenTrace.tla "
                        "(names on which sources disagree are unconstrained)",
                        "fallback strings are single ASCII characters registered for narrow runes; a fallback change is followed by Sync"]
    ctx.finish("exploration",
               rule="random draw histories with runes the locale has and lacks, line-drawing runes, RegisterRuneFallback / "
                    "UnregisterRuneFallback and CanDisplay calls, under each charset on terminals with VT100, CP437 and no ACS map; "
                    "every written byte is decoded by the reference terminal in that charset; the charset reaches tcell through LC_ALL, LC_CTYPE or LANG in turn, "
                    "the other variables naming a different one")

"""C18 - SimulationScreen is a faithful test double."""


def run(ctx):
    q = ctx.tier == "quick"
    ctx.build_harness()
    tf = ctx.work + "/trace.ndjson"
    s, _ = ctx.run_vh(["sim", "--random", 8 if q else 150, "--ops", 30, "--seed", ctx.seed, "--out", tf], timeout=3000)
    r = ctx.validate_parallel("SimTrace", tf, parts=12 if q else 16, expect_events=s.get("events"), timeout=3400)
    ctx.add_violations([d for d in r["devs"] if d["tag"].startswith("C18.")], tf)
    ctx.cov.update(traces_validated_against_impl=s["histories"], evaluations=s["ops"], distinct_nontrivial=s["distinct"],
                   events_validated=r["lines"], charsets=s["charsets"])
    ctx.samples.extend(s.get("samples", []))
    ctx.assumptions += ["the encoding of each rune comes from an independent x/text encoder instance of the charset",
                        "cells to the right of a wide rune are unconstrained; fallbacks are generated for primary runes only"]
    ctx.finish("exploration",
               rule="seeded random histories (drawing calls, SetStyle, fallback registration, ShowCursor, SetSize, Show/Sync, "
                    "InjectKey/InjectMouse/InjectKeyBytes with text of the charset) on a SimulationScreen of each of the 24 "
                    "stateless charsets; GetContents/GetCursor/PollEvent are compared with the logical screen by SimTrace.tla")

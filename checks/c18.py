"""C18 - SimulationScreen is a faithful test double."""
from lib import vlib


def model_and_replay(ctx, mops, gops, every):
    """M: SimModel (Show/Sync/draw/SetSize/cursor/event queue transcribed over the CellBuf implementation operators);
    G: the history of every transition into Show / Sync / Drain replayed on a real SimulationScreen, validated by SimTrace."""
    c = dict(W=3, H=1, MaxOps=mops, InvalidateOnSetSize="TRUE", GEN="FALSE")
    ctx.model("SimModel", constants=c, timeout=1800)
    g = ctx.tlc("SimModel", workers=16, timeout=1800, constants=dict(c, MaxOps=gops, GEN="TRUE"))
    if not g["ok"]:
        raise vlib.MachineryError("behaviour generation failed (SimModel)")
    beh = ctx.work + "/sim_beh.ndjson"
    if ctx.behaviours(g, beh) == 0:
        raise vlib.MachineryError("SimModel generated no behaviours")
    tf = ctx.work + "/trace_beh.ndjson"
    s, _ = ctx.run_vh(["sim", "--behaviours", beh, "--behevery", every, "--random", 0, "--seed", ctx.seed, "--out", tf], timeout=3000)
    r = ctx.validate_parallel("SimTrace", tf, parts=12, expect_events=s.get("events"), timeout=3400)
    ctx.add_violations([d for d in r["devs"] if d["tag"].startswith("C18.")], tf)
    # the simulator as it was found (cells lost by SetSize never repainted) is refuted by the model
    bad = ctx.tlc("SimModel", workers=8, timeout=600, constants=dict(c, MaxOps=4, InvalidateOnSetSize="FALSE"))
    ctx.cov["model_of_original_code_refuted"] = "is violated" in bad["out"]
    if "is violated" not in bad["out"]:
        raise vlib.MachineryError("SimModel no longer refutes InvalidateOnSetSize=FALSE")
    ctx.cov["behaviours_replayed"] = s["histories"]


def run(ctx):
    q = ctx.tier == "quick"
    ctx.build_harness()
    model_and_replay(ctx, 5 if q else 6, 4 if q else 5, 4 if q else 1)
    tf = ctx.work + "/trace.ndjson"
    s, _ = ctx.run_vh(["sim", "--random", 8 if q else 150, "--ops", 30, "--seed", ctx.seed, "--out", tf], timeout=3000)
    r = ctx.validate_parallel("SimTrace", tf, parts=12 if q else 16, expect_events=s.get("events"), timeout=3400)
    ctx.add_violations([d for d in r["devs"] if d["tag"].startswith("C18.")], tf)
    ctx.cov.update(traces_validated_against_impl=s["histories"], evaluations=s["ops"], distinct_nontrivial=s["distinct"],
                   events_validated=r["lines"], charsets=s["charsets"])
    ctx.samples.extend(s.get("samples", []))
    ctx.assumptions += ["the encoding of each rune comes from an independent x/text encoder instance of the charset",
                        "cells to the right of a wide rune are unconstrained; fallbacks are generated for primary runes only"]
    ctx.finish("model_checking",
               rule="M: SimModel (Show/Sync/draw/drawCell/resize/SetSize/cursor/event queue of simulation.go transcribed over the "
                    "CellBuf implementation operators): FrontOK, KeepsOverlap, CursorOK, ResizeOnce, KeysInOrder over every call "
                    "sequence up to the bound on a 3x1 screen with narrow, wide and zero-width runes; G: the history of every "
                    "transition into Show/Sync/Drain replayed on a real SimulationScreen (UTF-8 and EUC-JP); V: these and "
                    "seeded random histories (drawing calls, SetStyle, fallback registration, ShowCursor, SetSize, Show/Sync, "
                    "InjectKey/InjectMouse/InjectKeyBytes with text of the charset) on a SimulationScreen of each of the 24 "
                    "stateless charsets; GetContents/GetCursor/PollEvent are compared with the logical screen by SimTrace.tla")

"""C19 - WebAssembly backend builds, renders faithfully and never wedges."""
import json
import os
import subprocess

from lib import vlib


def run(ctx):
    q = ctx.tier == "quick"
    env = dict(os.environ, **vlib.GOENV)
    env.update(GOOS="js", GOARCH="wasm")
    shutil_sum = os.path.join(vlib.REPO, "go.sum")
    if os.path.exists(shutil_sum):
        import shutil
        shutil.copy(shutil_sum, os.path.join(vlib.HARNESS, "go.sum"))
    tf = ctx.work + "/trace.ndjson"
    # 1. the package must compile for js/wasm against the common Screen interface
    p = subprocess.run(["go", "build", "./"], cwd=vlib.REPO, env=env, stdout=subprocess.PIPE, stderr=subprocess.STDOUT, text=True)
    events = [dict(ev="Reset"), dict(ev="Build", ok=p.returncode == 0, msg=p.stdout.strip()[:400])]
    nlines = 0
    if p.returncode == 0:
        wasm = ctx.work + "/h.wasm"
        b = subprocess.run(["go", "build"] + vlib.modfile_args(ctx.work) + ["-o", wasm, "./wasm"], cwd=vlib.HARNESS, env=env, stdout=subprocess.PIPE,
                           stderr=subprocess.STDOUT, text=True)
        if b.returncode != 0:
            vlib.log(b.stdout)
            raise vlib.MachineryError("wasm harness does not build")
        goroot = subprocess.run(["go", "env", "GOROOT"], stdout=subprocess.PIPE, text=True).stdout.strip()
        execjs = os.path.join(goroot, "misc", "wasm", "wasm_exec_node.js")
        if not os.path.exists(execjs):
            execjs = os.path.join(goroot, "lib", "wasm", "wasm_exec_node.js")
        try:
            r = subprocess.run(["node", execjs, wasm, str(ctx.seed), str(30 if q else 400), "dil", str(3 if q else 4)],
                               stdout=subprocess.PIPE, stderr=subprocess.PIPE, text=True, timeout=1500)
        except subprocess.TimeoutExpired:
            raise vlib.MachineryError("wasm harness timed out under node")
        wedge = None
        if r.returncode != 0 and "all goroutines are asleep - deadlock" in r.stderr:
            # the Go runtime found every goroutine blocked: with a wScreen frame among them the screen has wedged
            frames = sorted({ln.strip().split("(0x")[0].split("/")[-1] for ln in r.stderr.splitlines()
                             if "gdamore/tcell/v2.(*wScreen)" in ln or "gdamore/tcell/v2.(*baseScreen)" in ln})
            if frames:
                wedge = dict(ev="Lifecycle", seq=["(outside the lifecycle phase)"], wedged="deadlock: " + ", ".join(frames[:4]), done=0)
        if wedge is None and (r.returncode != 0 or not r.stdout.strip()):
            vlib.log(r.stderr[-3000:])
            raise vlib.MachineryError("wasm harness failed under node (rc=%d)" % r.returncode)
        lines = [ln for ln in r.stdout.splitlines() if ln.startswith("{")]
        if wedge is not None:
            lines.append(json.dumps(wedge))
        nlines = len(lines)
        with open(tf, "w") as f:
            for e in events:
                f.write(json.dumps(e) + "\n")
            f.write("\n".join(lines) + "\n")
    else:
        with open(tf, "w") as f:
            for e in events:
                f.write(json.dumps(e) + "\n")
    r = ctx.validate_parallel("WScreenTrace", tf, parts=8 if q else 16, expect_events=nlines + 2, timeout=3000)
    ctx.add_violations([d for d in r["devs"] if d["tag"].startswith("C19.")], tf)
    hist = sum(1 for ln in open(tf) if '"ev":"Reset"' in ln or '"ev": "Reset"' in ln)
    ctx.cov.update(evaluations=max(nlines, 1), distinct_nontrivial=max(hist, 2), events_validated=r["lines"], compiled=p.returncode == 0)
    ctx.samples.append("drawCell(x,y,text,fg,bg,attrs,us,uc) calls between Show and ShowEnd; onKeyEvent('ArrowUp',shift,alt,ctrl,meta); lifecycle [Suspend,Resume,Fini]")
    ctx.assumptions += ["webfiles/tcell.js is replaced by recording stand-ins registered from Go (syscall/js) under Node 20",
                        "wide runes in the last column and the hidden half of wide runes are not constrained for this backend",
                        "key names checked are the standard KeyboardEvent.key names of the table (Enter, Arrow*, F-keys...), printable "
                        "characters and Ctrl-letter"]
    ctx.finish("exploration",
               rule="GOOS=js GOARCH=wasm build; random draw histories on the wasm screen; all listed key names x 16 modifier sets; "
                    "all mouse flag sets x button codes x both callbacks; paste/focus enabled and disabled; every order of "
                    "Suspend/Resume/SetSize/Fini up to length 3 (quick) / 4 (thorough) under a timer watchdog")

"""C20 - ViewPort and BoxLayout keep content inside disjoint, correctly sized regions."""
from lib import vlib


def run(ctx):
    q = ctx.tier == "quick"
    ctx.build_harness()
    ctx.model("ViewsModel", constants=dict(MaxC=3, MaxOps=3 if q else 4, GEN="FALSE"), timeout=3000)
    g = ctx.tlc("ViewsModel", workers=16, timeout=3000, constants=dict(MaxC=3, MaxOps=2, GEN="TRUE"))
    if not g["ok"]:
        raise vlib.MachineryError("behaviour generation failed")
    beh = ctx.work + "/beh.ndjson"
    nb = ctx.behaviours(g, beh)
    tf = ctx.work + "/trace.ndjson"
    s, _ = ctx.run_vh(["views", "--behaviours", beh, "--viewports", 400 if q else 8000, "--layouts", 400 if q else 8000,
                       "--seed", ctx.seed, "--out", tf], timeout=3000)
    r = ctx.validate_parallel("ViewsTrace", tf, parts=16, expect_events=s.get("events"), timeout=3400)
    ctx.add_violations([d for d in r["devs"] if d["tag"].startswith("C20.")], tf)
    ctx.cov.update(traces_validated_against_impl=s["histories"], evaluations=s["ops"], distinct_nontrivial=s["distinct"],
                   behaviours_replayed=nb, events_validated=r["lines"])
    ctx.samples.extend(s.get("samples", []))
    ctx.assumptions += ["clamping is required per axis after a call that moved that axis (always after SetContentSize/SetSize)",
                        "children with an empty rectangle are ignored by the ordering/disjointness clauses",
                        "fill factors are integers passed as float64"]
    ctx.finish("model_checking",
               rule="M: all ViewPort call sequences (<=3/4 calls, coordinates -1..3); every transition (<=2 calls) replayed on the "
                    "real ViewPort with a probe grid after each call; seeded random ViewPort histories and BoxLayout histories "
                    "(<=8 children, both orientations, Add/Insert/Remove/Resize/SetOrientation) with drawing children")

"""Shared pipeline of the input-decoder properties C02 C11 C12: `vh input --mode M` feeds the real decoder
(verif hook VerifParser), InputTrace.tla validates the log."""


def run_input(ctx, prefix, mode, n, exhaustive=False, parts=12, extra=()):
    ctx.build_harness()
    tf = ctx.work + "/trace.ndjson"
    args = ["input", "--mode", mode, "--n", n, "--seed", ctx.seed, "--out", tf]
    if exhaustive:
        args.append("--exhaustive")
    args += list(extra)
    s, _ = ctx.run_vh(args, timeout=3400)
    r = ctx.validate_parallel("InputTrace", tf, parts=parts, expect_events=s.get("events"), timeout=3400)
    ctx.add_violations([d for d in r["devs"] if d["tag"].startswith(prefix + ".")], tf)
    ctx.cov.update(evaluations=s["ops"], distinct_nontrivial=s["distinct"], events_validated=r["lines"],
                   terminals=s["terms"], strings=s["histories"])
    ctx.samples.extend(s.get("samples", []))
    return s, r

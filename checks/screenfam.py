"""Shared pipeline of the terminfo-screen properties C01 C04 C09 C13: `vh screen` drives the real
screen on a fake tty for every ECMA-48-family entry, TScreenTrace validates the log; each property
keeps the deviations carrying its own tag prefix."""
from lib import vlib


# terminal variants of TScreenModel and a built-in entry of each kind to replay behaviours on
VARIANTS = [
    ("civis+rmam", dict(HasCivis="TRUE", HasRmam="TRUE", Ich1Trick="FALSE"), "xterm-256color"),
    ("corner-trick", dict(HasCivis="FALSE", HasRmam="FALSE", Ich1Trick="TRUE"), "sun-color"),
    ("nocivis+rmam", dict(HasCivis="FALSE", HasRmam="TRUE", Ich1Trick="FALSE"), "vt100"),
    ("automargin", dict(HasCivis="FALSE", HasRmam="FALSE", Ich1Trick="FALSE"), "ansi"),
]


def model_and_replay(ctx, prefix, nvariants, mops, gops, every):
    """M: TScreenModel exhaustively for the first nvariants terminal variants; G: its behaviours (histories ending in a
    draw) replayed on a real screen of that variant and validated by TScreenTrace."""
    nb_total, devs = 0, []
    for name, consts, term in VARIANTS[:nvariants]:
        c = dict(consts, W=3, H=2, MaxOps=mops, CornerFix="TRUE", GEN="FALSE")
        ctx.model("TScreenModel", constants=c, timeout=3400)
        g = ctx.tlc("TScreenModel", workers=16, timeout=3400, constants=dict(c, MaxOps=gops, GEN="TRUE"))
        if not g["ok"]:
            raise vlib.MachineryError("behaviour generation failed for variant " + name)
        beh = ctx.work + "/beh_%s.ndjson" % name
        nb = ctx.behaviours(g, beh)
        tf = ctx.work + "/trace_beh_%s.ndjson" % name
        s, _ = ctx.run_vh(["screen", "--behaviours", beh, "--behevery", every, "--terms", term, "--random", 0, "--seed", ctx.seed,
                           "--out", tf] + (["--nopad"] if every == 1 else []), timeout=3000)
        r = ctx.validate_parallel("TScreenTrace", tf, parts=8, expect_events=s.get("events"), timeout=3400)
        mine = [d for d in r["devs"] if d["tag"].startswith(prefix + ".")]
        for d in mine:
            d["variant"] = name
        ctx.add_violations(mine, tf)
        nb_total += s["histories"]
    # the corner trick as it was found is refuted by the model (evidence that the model discriminates)
    bad = ctx.tlc("TScreenModel", workers=16, timeout=1200,
                  constants=dict(VARIANTS[1][1], W=3, H=2, MaxOps=3, CornerFix="FALSE", GEN="FALSE"))
    ctx.cov["model_of_original_corner_trick_refuted"] = "is violated" in bad["out"]
    ctx.cov["behaviours_replayed"] = nb_total
    return nb_total


def run_screen(ctx, prefix, mix="draw", per_term=(3, 40), ops=30, extra_runs=(), level="model_checking", rule=None,
               model=None):
    q = ctx.tier == "quick"
    ctx.build_harness()
    if model:
        model_and_replay(ctx, prefix, *model)
    n = per_term[0] if q else per_term[1]
    tf = ctx.work + "/trace.ndjson"
    s, _ = ctx.run_vh(["screen", "--random", n, "--ops", ops, "--seed", ctx.seed, "--mix", mix,
                       "--big", 0 if q else 97, "--out", tf], timeout=3000)
    r = ctx.validate_parallel("TScreenTrace", tf, parts=12 if q else 16, expect_events=s.get("events"), timeout=3400)
    mine = [d for d in r["devs"] if d["tag"].startswith(prefix + ".")]
    extras = [d for d in r["devs"] if d["tag"].startswith("EXTRA.")]
    ctx.add_violations(mine, tf)
    ctx.cov.update(traces_validated_against_impl=s["histories"], evaluations=s["ops"],
                   distinct_nontrivial=s["distinct"], events_validated=r["lines"], terminals=s["terms"],
                   draws_checked=s["shows"], bytes_interpreted=s["bytes"],
                   extra_monitor_reports=len(extras),
                   other_property_reports=len(r["devs"]) - len(mine) - len(extras))
    ctx.samples.extend(s.get("samples", [])[:2])
    for d in extras[:10]:
        vlib.log("  note (not a verdict): %s" % vlib.sig(d))
    return s, r

"""Shared pipeline of the terminfo-screen properties C01 C04 C09 C13: `vh screen` drives the real
screen on a fake tty for every ECMA-48-family entry, TScreenTrace validates the log; each property
keeps the deviations carrying its own tag prefix."""
from lib import vlib


def run_screen(ctx, prefix, mix="draw", per_term=(3, 40), ops=30, extra_runs=(), level="model_checking", rule=None,
               model=None):
    q = ctx.tier == "quick"
    ctx.build_harness()
    n = per_term[0] if q else per_term[1]
    tf = ctx.work + "/trace.ndjson"
    s, _ = ctx.run_vh(["screen", "--random", n, "--ops", ops, "--seed", ctx.seed, "--mix", mix,
                       "--big", 0 if q else 97, "--out", tf], timeout=3000)
    r = ctx.validate_parallel("TScreenTrace", tf, parts=12 if q else 16, expect_events=s.get("events"), timeout=3400)
    mine = [d for d in r["devs"] if d["tag"].startswith(prefix + ".")]
    extras = [d for d in r["devs"] if d["tag"].startswith("EXTRA.")]
    ctx.add_violations(mine, tf)
    ctx.cov.update(traces_validated_against_impl=s["histories"], evaluations=s["ops"],
                   distinct_nontrivial=s["distinct"], events_validated=r["lines"], terminals=s["terms"],
                   draws_checked=s["shows"], bytes_interpreted=s["bytes"],
                   extra_monitor_reports=len(extras),
                   other_property_reports=len(r["devs"]) - len(mine) - len(extras))
    ctx.samples.extend(s.get("samples", [])[:2])
    for d in extras[:10]:
        vlib.log("  note (not a verdict): %s" % vlib.sig(d))
    return s, r

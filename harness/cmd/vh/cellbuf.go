package main

import (
	"bufio"
	"encoding/json"
	"flag"
	"fmt"
	"math/rand"
	"os"
	"strings"

	"github.com/gdamore/tcell/v2"

	"verifharness/runes"
	"verifharness/tcx"
	"verifharness/trace"
)

func init() {
	register("cellbuf", "C08: drive tcell.CellBuffer, log every call and a full observation after it", cellbufMain)
}

// cbAlphabet: runes with an undisputed width class, plus a few unconstrained ones.
var cbAlphabet = []rune{
	0, 7, 0x1b, 0x7f, 0x85, 0x9b, // NUL, C0, DEL, C1
	' ', 'a', 'b', 'Z', '~', 0xe9, 0x3b1, 0x416, 0x5d0, // narrow
	0x4e16, 0x754c, 0xac00, 0xff21, 0x3042, 0x1f600, // wide
	0x200b, 0x200d, 0x2060, 0xfeff, 0x301, 0x20dd, 0x202e, 0x2028, // zero width / format / marks
	-1, 0x110000, 0xd800, // invalid
	0xa7, 0x2603, 0xe000, // unconstrained
}

var cbCombs = [][]rune{nil, {}, {0x301}, {0x300, 0x302}, {0x20dd}, {0xfe0f}, {0x301, 0xfe0f}}

type cbDriver struct {
	tw         *trace.Writer
	cb         *tcell.CellBuffer
	ops        int
	sig        strings.Builder // operation sequence of the current history
	seen       map[string]bool // distinct non-trivial histories
	nontrivial bool
	samples    []string
}

func (d *cbDriver) endHistory() {
	if d.sig.Len() > 0 && d.nontrivial {
		if d.seen == nil {
			d.seen = map[string]bool{}
		}
		if !d.seen[d.sig.String()] {
			d.seen[d.sig.String()] = true
			if len(d.samples) < 3 && d.sig.Len() < 600 {
				d.samples = append(d.samples, d.sig.String())
			}
		}
	}
	d.sig.Reset()
	d.nontrivial = false
}

// guarded runs one documented CellBuffer call (and the reads that follow it); a call that panics leaves no
// state of which the property could hold: it is logged as a Panic event and the history starts over.
func (d *cbDriver) guarded(op string, x, y int, f func()) {
	defer func() {
		if r := recover(); r != nil {
			d.tw.Emit(trace.Ev{"ev": "Panic", "op": op, "x": x, "y": y, "msg": fmt.Sprint(r)})
			d.ops++
			d.reset()
		}
	}()
	f()
}

func (d *cbDriver) observe(e trace.Ev) {
	x0, _ := e["x"].(int)
	y0, _ := e["y"].(int)
	d.guarded(fmt.Sprint(e["ev"])+"/read", x0, y0, func() { d.observe1(e) })
}

func (d *cbDriver) observe1(e trace.Ev) {
	w, h := d.cb.Size()
	e["w"], e["h"] = w, h
	obs := make([]interface{}, 0, w*h)
	for y := 0; y < h; y++ {
		for x := 0; x < w; x++ {
			obs = append(obs, d.probe(x, y))
		}
	}
	e["obs"] = obs
	oob := make([]interface{}, 0, 8)
	ring := [][2]int{{-1, 0}, {0, -1}, {w, 0}, {0, h}, {w, h}, {-1, -1}, {w + 3, h - 1}, {w - 1, h + 2}}
	for k := 0; k < 2; k++ {
		p := ring[(d.ops+k*3)%len(ring)]
		o := d.probe(p[0], p[1])
		oob = append(oob, append([]interface{}{p[0], p[1]}, o...))
	}
	e["oob"] = oob
	d.tw.Emit(e)
	d.ops++
	fmt.Fprintf(&d.sig, "%v(%v,%v,%v,%v,%v) ", e["ev"], e["x"], e["y"], e["cp"], e["comb"], e["st"])
	if x, ok := e["x"].(int); ok && e["ev"] != "Resize" {
		if y := e["y"].(int); x >= 0 && y >= 0 && x < w && y < h {
			d.nontrivial = true
		}
	}
	if e["ev"] == "Fill" && w*h > 0 {
		d.nontrivial = true
	}
}

func (d *cbDriver) probe(x, y int) []interface{} {
	r, comb, st, wd := d.cb.GetContent(x, y)
	return []interface{}{int(r), trace.Runes(comb), tcx.Style(st), wd, d.cb.Dirty(x, y)}
}

func (d *cbDriver) reset() {
	d.endHistory()
	d.cb = &tcell.CellBuffer{}
	d.tw.Emit(trace.Ev{"ev": "Reset"})
}

func (d *cbDriver) setContent(x, y int, r rune, comb []rune, st tcell.Style) {
	logged := trace.Runes(comb)
	mine := append([]rune(nil), comb...)
	ok := false
	d.guarded("SetContent", x, y, func() { d.cb.SetContent(x, y, r, mine, st); ok = true })
	if !ok {
		return
	}
	for i := range mine { // the caller scribbles over its slice afterwards
		mine[i] = 'X'
	}
	d.observe(trace.Ev{"ev": "SetContent", "x": x, "y": y, "cp": int(r), "wc": runes.Class(r),
		"comb": logged, "st": tcx.Style(st)})
}

func (d *cbDriver) fill(r rune, st tcell.Style) {
	ok := false
	d.guarded("Fill", 0, 0, func() { d.cb.Fill(r, st); ok = true })
	if !ok {
		return
	}
	d.observe(trace.Ev{"ev": "Fill", "cp": int(r), "wc": runes.Class(r), "st": tcx.Style(st)})
}

func (d *cbDriver) simple(op string, x, y int, b bool) {
	ok := false
	d.guarded(op, x, y, func() {
		switch op {
		case "Resize":
			d.cb.Resize(x, y)
		case "Invalidate":
			d.cb.Invalidate()
		case "SetDirty":
			d.cb.SetDirty(x, y, b)
		case "Lock":
			d.cb.LockCell(x, y)
		case "Unlock":
			d.cb.UnlockCell(x, y)
		}
		ok = true
	})
	if !ok {
		return
	}
	d.observe(trace.Ev{"ev": op, "x": x, "y": y, "d": b})
}

func (d *cbDriver) random(rng *rand.Rand, nops int) {
	d.reset()
	maxw, maxh := 1+rng.Intn(5), 1+rng.Intn(3)
	d.simple("Resize", rng.Intn(maxw+1), rng.Intn(maxh+1), false)
	for i := 0; i < nops; i++ {
		w, h := d.cb.Size()
		x, y := rng.Intn(w+3)-1, rng.Intn(h+3)-1
		switch k := rng.Intn(24); {
		case k == 23:
			// the same Fill before and after a Resize that adds cells: the new cells are filled as well
			r := []rune{'x', 0x4e16, '.', 0x301}[rng.Intn(4)]
			st := tcx.RandStyle(rng, true, false)
			d.fill(r, st)
			d.simple("Resize", w+1+rng.Intn(2), h+rng.Intn(2), false)
			d.fill(r, st)
			if rng.Intn(2) == 0 { // and through an empty buffer
				d.simple("Resize", 0, 0, false)
				d.simple("Resize", 1+rng.Intn(3), 1+rng.Intn(2), false)
				d.fill(r, st)
			}
		case k == 22:
			// every cell clean, a wide rune in the last column of a line, every cell clean again, then that cell
			// changes: nothing but it (and the columns the wide rune covered, had there been any) may turn dirty
			if w == 0 || h == 0 {
				continue
			}
			cleanAll := func() {
				for yy := 0; yy < h; yy++ {
					for xx := 0; xx < w; xx++ {
						d.simple("SetDirty", xx, yy, false)
					}
				}
			}
			y = rng.Intn(h)
			st := tcx.RandStyle(rng, true, true)
			cleanAll()
			d.setContent(w-1, y, []rune{0x4e16, 0xac00, 0xff21}[rng.Intn(3)], nil, st)
			cleanAll()
			d.setContent(w-1, y, []rune{'a', 0x754c, 'z'}[rng.Intn(3)], cbCombs[rng.Intn(len(cbCombs))], st)
		case k >= 20:
			// the same rune and style with another combining list of the same length, on a cell just marked clean:
			// nothing but the combining runes can make it dirty again
			if w == 0 || h == 0 {
				continue
			}
			x, y = rng.Intn(w), rng.Intn(h)
			r := []rune{0x200b, 0x200e, 0x7, 0x9b, 0x301, 'a', 0x4e16, 0}[rng.Intn(8)]
			st := tcx.RandStyle(rng, true, true)
			pairs := [][2][]rune{{{0x301}, {0x308}}, {{0x300, 0x302}, {0x302, 0x300}}, {{0x20dd}, {0x301}}, {{0x301, 0x302, 0x303}, {0x301, 0x302, 0x304}}}
			p := pairs[rng.Intn(len(pairs))]
			d.setContent(x, y, r, p[0], st)
			d.simple("SetDirty", x, y, false)
			d.setContent(x, y, r, p[1], st)
		case k < 9:
			r := cbAlphabet[rng.Intn(len(cbAlphabet))]
			if rng.Intn(6) == 0 {
				// (code points whose width the tables do not agree on - spacing marks, unassigned, private use - are not
				// used as content: the statement cannot say whether they are stored or blanked)
				for r = rune(rng.Intn(0x3000)); runes.Class(r) == -1; r = rune(rng.Intn(0x3000)) {
				}
			}
			d.setContent(x, y, r, cbCombs[rng.Intn(len(cbCombs))], tcx.RandStyle(rng, true, true))
		case k < 10:
			d.fill(cbAlphabet[rng.Intn(len(cbAlphabet))], tcx.RandStyle(rng, false, true))
		case k < 11:
			d.simple("Resize", rng.Intn(maxw+1), rng.Intn(maxh+1), false)
		case k < 12:
			d.simple("Invalidate", 0, 0, false)
		case k < 16:
			d.simple("SetDirty", x, y, rng.Intn(3) == 0)
		case k < 18:
			d.simple("Lock", x, y, false)
		default:
			d.simple("Unlock", x, y, false)
		}
	}
}

// replayEvents re-executes the operations of logged events (stored replay files).
func (d *cbDriver) replayEvents(evs []map[string]interface{}) {
	num := func(v interface{}) int { return int(v.(float64)) }
	for _, e := range evs {
		switch op := e["ev"].(string); op {
		case "Reset":
			d.reset()
		case "SetContent":
			var comb []rune
			for _, c := range e["comb"].([]interface{}) {
				comb = append(comb, rune(num(c)))
			}
			d.setContent(num(e["x"]), num(e["y"]), rune(num(e["cp"])), comb, tcx.StyleFrom(e["st"].([]interface{})))
		case "Fill":
			d.fill(rune(num(e["cp"])), tcx.StyleFrom(e["st"].([]interface{})))
		default:
			b, _ := e["d"].(bool)
			d.simple(op, num(e["x"]), num(e["y"]), b)
		}
	}
}

// replay runs one TLC-generated history (a JSON array of operation records).
func (d *cbDriver) replay(hist []map[string]interface{}) {
	d.reset()
	num := func(v interface{}) int { return int(v.(float64)) }
	for _, o := range hist {
		switch o["op"].(string) {
		case "SetContent":
			r := o["r"].([]interface{})
			var comb []rune
			for _, c := range o["comb"].([]interface{}) {
				comb = append(comb, rune(num(c)))
			}
			d.setContent(num(o["x"]), num(o["y"]), rune(num(r[0])), comb, tcx.StyleFrom(o["st"].([]interface{})))
		case "Fill":
			r := o["r"].([]interface{})
			d.fill(rune(num(r[0])), tcx.StyleFrom(o["st"].([]interface{})))
		case "Resize":
			d.simple("Resize", num(o["w"]), num(o["h"]), false)
		case "Invalidate":
			d.simple("Invalidate", 0, 0, false)
		case "SetDirty":
			d.simple("SetDirty", num(o["x"]), num(o["y"]), o["d"].(bool))
		case "Lock":
			d.simple("Lock", num(o["x"]), num(o["y"]), false)
		case "Unlock":
			d.simple("Unlock", num(o["x"]), num(o["y"]), false)
		}
	}
}

func cellbufMain(args []string) error {
	fs := flag.NewFlagSet("cellbuf", flag.ExitOnError)
	out := fs.String("out", "trace.ndjson", "trace file")
	seed := fs.Int64("seed", 1, "seed")
	n := fs.Int("random", 0, "number of random histories")
	nops := fs.Int("ops", 40, "operations per random history")
	beh := fs.String("behaviours", "", "file with TLC-generated histories (one JSON array per line)")
	rep := fs.String("replay", "", "replay file written by vcheck (JSON with a history of logged events)")
	fs.Parse(args)

	tw, err := trace.Create(*out)
	if err != nil {
		return err
	}
	d := &cbDriver{tw: tw, samples: []string{}}
	hists := 0
	if *rep != "" {
		raw, err := os.ReadFile(*rep)
		if err != nil {
			return err
		}
		var doc struct {
			History []map[string]interface{} `json:"history"`
		}
		if err := json.Unmarshal(raw, &doc); err != nil {
			return err
		}
		if len(doc.History) == 0 || doc.History[0]["ev"] != "Reset" {
			d.reset()
		}
		d.replayEvents(doc.History)
		hists++
	}
	if *beh != "" {
		f, err := os.Open(*beh)
		if err != nil {
			return err
		}
		sc := bufio.NewScanner(f)
		sc.Buffer(make([]byte, 1<<20), 1<<26)
		for sc.Scan() {
			line := strings.TrimSpace(sc.Text())
			if line == "" {
				continue
			}
			var hist []map[string]interface{}
			if err := json.Unmarshal([]byte(line), &hist); err != nil {
				return fmt.Errorf("behaviour %d: %v", hists, err)
			}
			d.replay(hist)
			hists++
		}
		f.Close()
	}
	rng := rand.New(rand.NewSource(*seed))
	for i := 0; i < *n; i++ {
		d.random(rng, *nops)
		hists++
	}
	d.endHistory()
	if err := tw.Close(); err != nil {
		return err
	}
	sum, _ := json.Marshal(map[string]interface{}{"histories": hists, "events": tw.N, "ops": d.ops,
		"distinct": len(d.seen), "samples": d.samples})
	fmt.Println(string(sum))
	return nil
}

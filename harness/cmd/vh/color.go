package main

import (
	"encoding/json"
	"flag"
	"fmt"
	"image/color"
	"math/rand"
	"os"
	"regexp"
	"sort"

	"github.com/gdamore/tcell/v2"

	"verifharness/lab"
	"verifharness/tcx"
	"verifharness/trace"
)

func init() {
	register("color", "C16: palette, names, conversions and FindColor of the real code", colorMain)
}

func convEvent(v int) trace.Ev {
	c := tcell.NewHexColor(int32(v))
	r, g, b := c.RGB()
	tc := c.TrueColor()
	return trace.Ev{"ev": "Conv", "v": v, "hex": int(c.Hex()), "r": int(r), "g": int(g), "b": int(b),
		"nrgb": int(tcell.NewRGBColor(int32(v>>16&0xff), int32(v>>8&0xff), int32(v&0xff)).Hex()),
		"tc":   int(tc.Hex()), "tcrgb": tc.IsRGB(), "css": trace.Str(c.CSS()), "get": int(tcell.GetColor(c.CSS()).Hex()),
		"img": int(tcell.FromImageColor(color.RGBA{uint8(v >> 16), uint8(v >> 8), uint8(v), 255}).Hex()), "valid": c.Valid()}
}

func colorMain(args []string) error {
	fs := flag.NewFlagSet("color", flag.ExitOnError)
	out := fs.String("out", "trace.ndjson", "trace file")
	seed := fs.Int64("seed", 1, "seed")
	nconv := fs.Int("conv", 20000, "random conversion values")
	nblocks := fs.Int("blocks", 64, "256-value blocks for the conversions")
	nfind := fs.Int("find", 4000, "FindColor cases per palette class")
	cssfile := fs.String("cssnames", "", "spec/CssNames.tla (for the list of CSS names)")
	fs.Parse(args)
	tw, err := trace.Create(*out)
	if err != nil {
		return err
	}
	rng := rand.New(rand.NewSource(*seed))
	n := 0
	emit := func(e trace.Ev) {
		tw.Emit(e)
		n++
		if n%20000 == 0 {
			tw.Emit(trace.Ev{"ev": "Reset"})
		}
	}
	tw.Emit(trace.Ev{"ev": "Reset"})
	// palette: exhaustive
	for i := 0; i < 256; i++ {
		c := tcell.PaletteColor(i)
		emit(trace.Ev{"ev": "Palette", "i": i, "hex": int(c.Hex()), "valid": c.Valid(), "isrgb": c.IsRGB()})
	}
	// names: every CSS name through GetColor; every name tcell defines
	if *cssfile != "" {
		raw, err := os.ReadFile(*cssfile)
		if err != nil {
			return err
		}
		for _, m := range regexp.MustCompile(`(?m)^\s+([a-z]+) \|-> \d+`).FindAllStringSubmatch(string(raw), -1) {
			emit(trace.Ev{"ev": "CssName", "name": m[1], "hex": int(tcell.GetColor(m[1]).Hex())})
		}
	}
	var tn []string
	for name := range tcell.ColorNames {
		tn = append(tn, name)
	}
	sort.Strings(tn)
	for _, name := range tn {
		c := tcell.ColorNames[name]
		// the way back: Name() of the colour is some name of the same value, String() is that or the CSS form
		back, str := c.Name(), c.String()
		emit(trace.Ev{"ev": "TcellName", "name": name, "hex": int(c.Hex()), "backhex": int(tcell.GetColor(back).Hex()),
			"strhex": int(tcell.GetColor(str).Hex())})
	}
	// special / invalid colours
	for which, c := range map[string]tcell.Color{"default": tcell.ColorDefault, "none": tcell.ColorNone, "reset": tcell.ColorReset,
		"rawnumber": tcell.Color(5), "rgbflagonly": tcell.ColorIsRGB | 0x123456, "special7": tcell.ColorSpecial | 7} {
		r, g, b := c.RGB()
		emit(trace.Ev{"ev": "Special", "which": which, "valid": c.Valid(), "hex": int(c.Hex()), "r": int(r), "g": int(g), "b": int(b),
			"css": trace.Str(c.CSS()), "tcdefault": c.TrueColor() == tcell.ColorDefault})
	}
	// conversions: palette and named values, channel sweeps, lattice, random
	seen := map[int]bool{}
	conv := func(v int) {
		if !seen[v] {
			seen[v] = true
			emit(convEvent(v))
		}
	}
	for i := 0; i < 256; i++ {
		conv(lab.XtermRGB(i))
		conv(i << 16)
		conv(i << 8)
		conv(i)
		conv(i<<16 | i<<8 | i)
	}
	for _, name := range tn {
		conv(int(tcell.ColorNames[name].Hex()) & 0xffffff)
	}
	for r := 0; r < 256; r += 17 {
		for g := 0; g < 256; g += 17 {
			for b := 0; b < 256; b += 17 {
				conv(r<<16 | g<<8 | b)
			}
		}
	}
	for i := 0; i < *nconv; i++ {
		conv(rng.Intn(1 << 24))
	}
	for k := 0; k < *nblocks; k++ {
		base := rng.Intn(1<<16) << 8
		if k == 0 {
			base = 0
		} else if k == 1 {
			base = 0xffff00
		}
		e := trace.Ev{"ev": "Block", "base": base}
		var hex, rgb, nrgb, tcv, img, get []int
		for i := 0; i < 256; i++ {
			v := base + i
			c := tcell.NewHexColor(int32(v))
			r, g, b := c.RGB()
			hex = append(hex, int(c.Hex()))
			rgb = append(rgb, int(r)<<16|int(g)<<8|int(b))
			nrgb = append(nrgb, int(tcell.NewRGBColor(r, g, b).Hex()))
			tcv = append(tcv, int(c.TrueColor().Hex()))
			img = append(img, int(tcell.FromImageColor(color.RGBA{uint8(r), uint8(g), uint8(b), 255}).Hex()))
			get = append(get, int(tcell.GetColor(c.CSS()).Hex()))
		}
		e["hex"], e["rgb"], e["nrgb"], e["tc"], e["img"], e["get"] = hex, rgb, nrgb, tcv, img, get
		emit(e)
	}
	// FindColor against the 8/16/88/256 palettes, random palettes, and an empty one
	mkpal := func(k int) ([]tcell.Color, []int) {
		var p []tcell.Color
		var v []int
		for i := 0; i < k; i++ {
			p = append(p, tcell.PaletteColor(i))
			v = append(v, lab.XtermRGB(i))
		}
		return p, v
	}
	find := func(kind string, c tcell.Color, cv int, pal []tcell.Color, pv []int) {
		res := tcell.FindColor(c, pal)
		idx := 0
		for i, p := range pal {
			if p == res {
				idx = i + 1
				break
			}
		}
		d := make([]int, len(pv))
		for i, q := range pv {
			if q < 0 { // not a colour: no distance
				d[i] = -1
				continue
			}
			d[i] = int(lab.Dist(cv, q)*1e6 + 0.5)
		}
		emit(trace.Ev{"ev": "Find", "kind": kind, "c": cv, "pal": pv, "idx": idx, "d": d, "isdefault": res == tcell.ColorDefault})
	}
	for _, k := range []int{8, 16, 88, 256} {
		pal, pv := mkpal(k)
		kind := fmt.Sprintf("xterm%d", k)
		for i := 0; i < 256; i++ { // every palette member itself
			find(kind, tcell.PaletteColor(i), lab.XtermRGB(i), pal, pv)
		}
		for r := 0; r < 256; r += 51 {
			for g := 0; g < 256; g += 51 {
				for b := 0; b < 256; b += 51 {
					v := r<<16 | g<<8 | b
					find(kind, tcell.NewHexColor(int32(v)), v, pal, pv)
				}
			}
		}
		for i := 0; i < *nfind; i++ {
			v := rng.Intn(1 << 24)
			if i%3 == 0 { // near a palette member: where Voronoi boundaries are dense
				v = pv[rng.Intn(len(pv))] ^ (rng.Intn(16) << 16) ^ (rng.Intn(16) << 8) ^ rng.Intn(16)
			}
			find(kind, tcell.NewHexColor(int32(v)), v, pal, pv)
		}
	}
	for i := 0; i < *nfind/2; i++ {
		k := 1 + rng.Intn(12)
		var pal []tcell.Color
		var pv []int
		for j := 0; j < k; j++ {
			v := rng.Intn(1 << 24)
			pal = append(pal, tcell.NewHexColor(int32(v)))
			pv = append(pv, v)
		}
		v := rng.Intn(1 << 24)
		find("random", tcell.NewHexColor(int32(v)), v, pal, pv)
	}
	// palette colours looked up in palettes that are not the identity: random RGB palettes longer than the index,
	// a rotated xterm palette, and black/white (what a monochrome terminal asks for)
	for i := 0; i < *nfind/8; i++ {
		ci := rng.Intn(16)
		if rng.Intn(3) == 0 {
			ci = rng.Intn(256)
		}
		c, cv := tcell.PaletteColor(ci), lab.XtermRGB(ci)
		var pal []tcell.Color
		var pv []int
		switch rng.Intn(3) {
		case 0:
			for j := 0; j < ci+1+rng.Intn(6); j++ {
				v := rng.Intn(1 << 24)
				pal, pv = append(pal, tcell.NewHexColor(int32(v))), append(pv, v)
			}
		case 1:
			k, rot := []int{8, 16, 256}[rng.Intn(3)], 1+rng.Intn(7)
			for j := 0; j < k; j++ {
				pal, pv = append(pal, tcell.PaletteColor((j+rot)%k)), append(pv, lab.XtermRGB((j+rot)%k))
			}
		default:
			pal, pv = []tcell.Color{tcell.ColorBlack, tcell.ColorWhite}, []int{lab.XtermRGB(0), lab.XtermRGB(15)}
		}
		find("palettecolour", c, cv, pal, pv)
	}
	find("empty", tcell.NewHexColor(0x123456), 0x123456, []tcell.Color{}, []int{})
	// colours that are not colours (ColorReset, ColorNone, a flagless value) looked up in ordinary palettes: the
	// answer is a member all the same (distances are not judged: all logged as 0)
	for i, c := range []tcell.Color{tcell.ColorReset, tcell.ColorNone, tcell.ColorIsRGB | 0x102030, tcell.ColorSpecial | 7, tcell.Color(0x00ffffff)} {
		for _, k := range []int{2, 8, 16, 256} {
			pal, pv := mkpal(k)
			res := tcell.FindColor(c, pal)
			idx := 0
			for j, p := range pal {
				if p == res {
					idx = j + 1
					break
				}
			}
			emit(trace.Ev{"ev": "Find", "kind": "specialc", "c": -1 - i, "pal": pv, "idx": idx, "d": make([]int, len(pv)), "isdefault": res == tcell.ColorDefault})
		}
		res := tcell.FindColor(c, []tcell.Color{})
		emit(trace.Ev{"ev": "Find", "kind": "specialc-empty", "c": -1 - i, "pal": []int{}, "idx": 0, "d": []int{}, "isdefault": res == tcell.ColorDefault})
	}
	// palettes with members that are not valid colours (ColorReset, ColorNone, RGB bits without the valid flag):
	// the answer is still a member; such a member is never "closer" (its distance is logged as -1)
	specials := []tcell.Color{tcell.ColorReset, tcell.ColorNone, tcell.ColorIsRGB | 0x102030, tcell.ColorSpecial | 7}
	for i := 0; i < 40; i++ {
		var pal []tcell.Color
		var pv []int
		for j := 0; j < 1+rng.Intn(4); j++ {
			pal, pv = append(pal, specials[rng.Intn(len(specials))]), append(pv, -1)
		}
		if i%2 == 0 { // mixed with valid ones
			for j := 0; j < 1+rng.Intn(3); j++ {
				v := rng.Intn(1 << 24)
				at := rng.Intn(len(pal) + 1)
				pal = append(pal[:at:at], append([]tcell.Color{tcell.NewHexColor(int32(v))}, pal[at:]...)...)
				pv = append(pv[:at:at], append([]int{v}, pv[at:]...)...)
			}
		}
		v := []int{0, 0x010101, 0xffffff, rng.Intn(1 << 24)}[rng.Intn(4)]
		find("withinvalid", tcell.NewHexColor(int32(v)), v, pal, pv)
	}
	// FromImageColor on opaque colours with 16-bit channels: the 8-bit value of a channel is its high byte, as the
	// image/color models convert (a tcell colour holds 8 bits per channel)
	for i := 0; i < 600; i++ {
		r, g, b := rng.Intn(1<<16), rng.Intn(1<<16), rng.Intn(1<<16)
		if i < 256 {
			r, g, b = i<<8, i<<8|0xff, (255-i)<<8|i // low byte below, above and around the high byte
		}
		y := rng.Intn(1 << 16)
		emit(trace.Ev{"ev": "Img16", "r": r, "g": g, "b": b, "y": y,
			"rgba64":  int(tcell.FromImageColor(color.RGBA64{R: uint16(r), G: uint16(g), B: uint16(b), A: 0xffff}).Hex()),
			"nrgba64": int(tcell.FromImageColor(color.NRGBA64{R: uint16(r), G: uint16(g), B: uint16(b), A: 0xffff}).Hex()),
			"gray16":  int(tcell.FromImageColor(color.Gray16{Y: uint16(y)}).Hex())})
	}
	_ = tcx.Color
	if err := tw.Close(); err != nil {
		return err
	}
	sum, _ := json.Marshal(map[string]interface{}{"events": tw.N, "ops": n, "distinct": n, "histories": n, "conversions": len(seen),
		"samples": []string{"Palette 196 -> ff0000", "Conv 0x8a2be2", "Find c=0x7f7f7f against xterm16 with 16 distances"}})
	fmt.Println(string(sum))
	return nil
}

package main

import (
	"encoding/json"
	"fmt"
	"reflect"

	"github.com/gdamore/tcell/v2/terminfo"
	_ "github.com/gdamore/tcell/v2/terminfo/extended"
)

func init() {
	register("dbdump", "dump every registered terminfo entry as JSON (diagnostics)", func(args []string) error {
		for _, n := range terminfo.VerifNames() {
			ti := terminfo.VerifEntry(n)
			m := map[string]interface{}{"_name": n}
			v := reflect.ValueOf(*ti)
			for i := 0; i < v.NumField(); i++ {
				f := v.Field(i)
				switch f.Kind() {
				case reflect.String:
					if f.String() != "" {
						m[v.Type().Field(i).Name] = f.String()
					}
				case reflect.Int:
					m[v.Type().Field(i).Name] = f.Int()
				case reflect.Bool:
					m[v.Type().Field(i).Name] = f.Bool()
				}
			}
			b, _ := json.Marshal(m)
			fmt.Println(string(b))
		}
		return nil
	})
}

//go:build linux

package main

import (
	"encoding/json"
	"flag"
	"fmt"
	"math/rand"
	"sync"
	"time"

	"golang.org/x/sys/unix"

	"verifharness/ptytty"
	"verifharness/trace"
)

func init() {
	register("devtty", "device Tty contract (tty_unix.go) on a pseudo-terminal: termios, reads, drain, resize callback", devttyMain)
}

// tioJSON projects the line settings that raw mode is about.
func tioJSON(t *unix.Termios) map[string]interface{} {
	b := func(v uint32, m uint32) int {
		if v&m != 0 {
			return 1
		}
		return 0
	}
	return map[string]interface{}{
		"icanon": b(t.Lflag, unix.ICANON), "echo": b(t.Lflag, unix.ECHO), "isig": b(t.Lflag, unix.ISIG), "iexten": b(t.Lflag, unix.IEXTEN),
		"icrnl": b(t.Iflag, unix.ICRNL), "ixon": b(t.Iflag, unix.IXON), "istrip": b(t.Iflag, unix.ISTRIP), "inlcr": b(t.Iflag, unix.INLCR),
		"opost": b(t.Oflag, unix.OPOST), "cs8": b(t.Cflag&unix.CSIZE, unix.CS8&unix.CSIZE) * b(^(t.Cflag&unix.CSIZE)|unix.CS8, 0xffffffff),
		"parenb": b(t.Cflag, unix.PARENB), "vmin": int(t.Cc[unix.VMIN]), "vtime": int(t.Cc[unix.VTIME]),
		"iflag": int(t.Iflag), "oflag": int(t.Oflag), "lflag": int(t.Lflag), "cflag": int(t.Cflag),
	}
}

type readRes struct {
	data []byte
	err  string
}

func devttyRun(tw *trace.Writer, rng *rand.Rand, nops int, cooked int) error {
	p, err := ptytty.Open(20+rng.Intn(60), 5+rng.Intn(40))
	if err != nil {
		return err
	}
	defer p.Close()
	tw.Emit(trace.Ev{"ev": "Reset"})
	if cooked > 0 { // start from other line settings than the default ones
		t, _ := p.Termios()
		if cooked&1 != 0 {
			t.Lflag &^= unix.ECHO
		}
		if cooked&2 != 0 {
			t.Iflag &^= unix.ICRNL
			t.Iflag |= unix.IXON
		}
		if cooked&4 != 0 {
			t.Oflag &^= unix.OPOST
			t.Cc[unix.VMIN], t.Cc[unix.VTIME] = 4, 2
		}
		p.SetTermios(t)
	}
	tty, err := p.Tty()
	if err != nil {
		return err
	}
	t0, _ := p.Termios()
	tw.Emit(trace.Ev{"ev": "Open", "tio": tioJSON(t0)})
	tio := func() map[string]interface{} {
		t, err := p.Termios()
		if err != nil {
			return map[string]interface{}{}
		}
		return tioJSON(t)
	}
	errs := func(e error) string {
		if e == nil {
			return ""
		}
		return e.Error()
	}
	var mu sync.Mutex
	cbCount := 0
	cb := func() { mu.Lock(); cbCount++; mu.Unlock() }
	cbs := func() int { mu.Lock(); defer mu.Unlock(); return cbCount }
	started, drained, hascb := false, false, false
	var reads chan readRes
	reading := false // a reader goroutine is blocked in (or looping on) Read
	startReader := func() {
		reads = make(chan readRes, 64)
		reading = true
		go func(out chan readRes) {
			for {
				buf := make([]byte, 128)
				n, e := tty.Read(buf)
				out <- readRes{append([]byte{}, buf[:n]...), errs(e)}
				if e != nil {
					close(out)
					return
				}
				if n == 0 { // drained: the input loop of the screen ends here as well
					close(out)
					return
				}
			}
		}(reads)
	}
	// collect what the reader delivers until want bytes arrived, it ended, or the deadline
	gather := func(want int, d time.Duration) (data []byte, ended bool, lastErr string) {
		deadline := time.After(d)
		for len(data) < want || want < 0 {
			select {
			case r, ok := <-reads:
				if !ok {
					reading = false
					return data, true, lastErr
				}
				data = append(data, r.data...)
				if r.err != "" {
					lastErr = r.err
				}
			case <-deadline:
				return data, false, lastErr
			}
		}
		return data, false, lastErr
	}
	for i := 0; i < nops; i++ {
		switch k := rng.Intn(10); {
		case !started:
			e := tty.Start()
			started, drained = e == nil, false
			tw.Emit(trace.Ev{"ev": "Start", "err": errs(e), "tio": tio()})
			if started {
				startReader()
			}
		case k < 3 && !drained:
			n := 1 + rng.Intn(6)
			b := make([]byte, n)
			for j := range b {
				b[j] = []byte{'a', 'Z', 0x1b, '[', 'A', 3, 13, 10, 17, 19, 26, 28, 127, 0xc3, 0xa9, 0}[rng.Intn(16)]
			}
			p.Inject(b)
			got, ended, le := gather(n, 2*time.Second)
			tw.Emit(trace.Ev{"ev": "Input", "data": trace.Ints(b), "read": trace.Ints(got), "ended": ended, "err": le})
		case k < 5 && !drained:
			b := []byte(fmt.Sprintf("\x1b[%d;%dHx\r\ny\n", rng.Intn(20), rng.Intn(20)))
			before := len(p.Output())
			n, e := tty.Write(b)
			var seen []byte
			for w := 0; w < 200; w++ {
				seen = p.Output()[before:]
				if len(seen) >= len(b) {
					break
				}
				time.Sleep(time.Millisecond)
			}
			tw.Emit(trace.Ev{"ev": "Write", "data": trace.Ints(b), "n": n, "err": errs(e), "seen": trace.Ints(seen)})
		case k < 7:
			if rng.Intn(3) == 0 {
				hascb = !hascb
				if hascb {
					tty.NotifyResize(cb)
				} else {
					tty.NotifyResize(nil)
				}
				tw.Emit(trace.Ev{"ev": "NotifyResize", "on": hascb})
			}
			w, h := 10+rng.Intn(100), 3+rng.Intn(50)
			if rng.Intn(6) == 0 {
				w, h = 0, 0
			}
			before := cbs()
			p.SetSize(w, h, true)
			called := false
			for t := 0; t < 300; t++ {
				if cbs() > before {
					called = true
					break
				}
				time.Sleep(time.Millisecond)
				if !hascb && t > 30 {
					break
				}
			}
			ws, e := tty.WindowSize()
			tw.Emit(trace.Ev{"ev": "Resize", "w": w, "h": h, "called": called, "ws": []int{ws.Width, ws.Height}, "err": errs(e)})
		case k < 8 && !drained:
			t0 := time.Now()
			e := tty.Drain()
			_, ended, _ := gather(-1, 2*time.Second)
			drained = true
			tw.Emit(trace.Ev{"ev": "Drain", "err": errs(e), "reader_ended": ended, "ms": int(time.Since(t0) / time.Millisecond)})
		default:
			if !drained {
				tty.Drain()
				_, ended, _ := gather(-1, 2*time.Second)
				tw.Emit(trace.Ev{"ev": "Drain", "err": "", "reader_ended": ended, "ms": 0})
			}
			done := make(chan error, 1)
			go func() { done <- tty.Stop() }()
			var e error
			returned := true
			select {
			case e = <-done:
			case <-time.After(3 * time.Second):
				returned = false
			}
			started, drained = false, false
			tw.Emit(trace.Ev{"ev": "Stop", "err": errs(e), "returned": returned, "tio": tio(), "reading": reading})
			if !returned {
				return nil
			}
		}
	}
	if started {
		tty.Drain()
		_, ended, _ := gather(-1, 2*time.Second)
		tw.Emit(trace.Ev{"ev": "Drain", "err": "", "reader_ended": ended, "ms": 0})
		e := tty.Stop()
		tw.Emit(trace.Ev{"ev": "Stop", "err": errs(e), "returned": true, "tio": tio(), "reading": reading})
	}
	tty.Close()
	tw.Emit(trace.Ev{"ev": "Close", "tio": tio()})
	return nil
}

func devttyMain(args []string) error {
	fs := flag.NewFlagSet("devtty", flag.ExitOnError)
	out := fs.String("out", "trace.ndjson", "trace file")
	seed := fs.Int64("seed", 1, "seed")
	n := fs.Int("random", 20, "histories")
	nops := fs.Int("ops", 25, "operations per history")
	fs.Parse(args)
	if why := ptyUnavailable(); why != "" {
		return skipRun(*out, why)
	}
	tw, err := trace.Create(*out)
	if err != nil {
		return err
	}
	rng := rand.New(rand.NewSource(*seed))
	for i := 0; i < *n; i++ {
		if err := devttyRun(tw, rng, *nops, i%8); err != nil {
			return err
		}
	}
	if err := tw.Close(); err != nil {
		return err
	}
	sum, _ := json.Marshal(map[string]interface{}{"histories": *n, "events": tw.N, "ops": *n * *nops, "distinct": *n,
		"samples": []string{"Open / Start (raw) / Input a ESC [ A / Resize 80x24 (callback) / Drain / Stop (restored)"}})
	fmt.Println(string(sum))
	return nil
}

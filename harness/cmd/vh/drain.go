package main

import (
	"time"

	"github.com/gdamore/tcell/v2"
	"verifharness/trace"
)

// drainPending polls events for as long as HasPendingEvent says there is one.  An answer of true promises that
// the next PollEvent returns at once; when it instead blocks for two seconds on a quiet screen the lie is
// reported through emit (which may be nil in areas whose trace is about something else), the stuck poll is
// released with a posted event, and the caller goes on.
func drainPending(s tcell.Screen, where string, emit func(trace.Ev), each func(tcell.Event)) bool {
	for s.HasPendingEvent() {
		got := make(chan tcell.Event, 1)
		go func() { got <- s.PollEvent() }()
		select {
		case ev := <-got:
			if ev == nil {
				return true
			}
			if each != nil {
				each(ev)
			}
		case <-time.After(2 * time.Second):
			if emit != nil {
				emit(trace.Ev{"ev": "PendingLie", "where": where, "waited_ms": 2000})
			}
			s.PostEvent(tcell.NewEventInterrupt("release"))
			select {
			case <-got:
			case <-time.After(2 * time.Second):
			}
			return false
		}
	}
	return true
}

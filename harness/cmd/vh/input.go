package main

import (
	"encoding/base64"
	"encoding/json"
	"flag"
	"fmt"
	"math/rand"
	"os"
	"reflect"
	"sort"
	"strings"
	"time"
	"unicode/utf8"

	"github.com/gdamore/tcell/v2"
	"github.com/gdamore/tcell/v2/terminfo"
	_ "github.com/gdamore/tcell/v2/terminfo/extended"

	"verifharness/faketty"
	"verifharness/trace"
)

func init() {
	register("input", "C02 C03 C11 C12: feed bytes to the real input decoder (verif hook), log the events", inputMain)
}

// evJSON encodes a decoded event as a tuple.
func evJSON(ev tcell.Event) []interface{} {
	switch e := ev.(type) {
	case *tcell.EventKey:
		return []interface{}{"key", int(e.Key()), int(e.Rune()), int(e.Modifiers())}
	case *tcell.EventMouse:
		x, y := e.Position()
		return []interface{}{"mouse", x, y, int(e.Buttons()), int(e.Modifiers())}
	case *tcell.EventPaste:
		if e.Start() {
			return []interface{}{"paste", 1}
		}
		return []interface{}{"paste", 0}
	case *tcell.EventFocus:
		if e.Focused {
			return []interface{}{"focus", 1}
		}
		return []interface{}{"focus", 0}
	case *tcell.EventClipboard:
		return []interface{}{"clip", trace.Ints(e.Data())}
	}
	return []interface{}{"other", fmt.Sprintf("%T", ev)}
}

type decodeResult struct {
	evs    []interface{}
	left   int // bytes still buffered after the expiry
	held   int // bytes buffered before the expiry
	panicd bool
	stall  bool
}

// decode feeds chunks (then an expiry) to a fresh parser under a watchdog.
func decode(ti terminfo.Terminfo, charset string, w, h int, chunks [][]byte, p **tcell.VerifParser) decodeResult {
	res := decodeResult{evs: []interface{}{}}
	done := make(chan struct{})
	go func() {
		defer close(done)
		defer func() {
			if r := recover(); r != nil {
				res.panicd = true
			}
		}()
		var vp *tcell.VerifParser
		if p != nil && *p != nil {
			vp = *p
		} else {
			var err error
			vp, err = tcell.NewVerifParser(&ti, charset, w, h)
			if err != nil {
				panic(err)
			}
			if p != nil {
				*p = vp
			}
		}
		for _, c := range chunks {
			for _, ev := range vp.Feed(c, false) {
				res.evs = append(res.evs, evJSON(ev))
			}
		}
		res.held = vp.Buffered()
		for _, ev := range vp.Feed(nil, true) {
			res.evs = append(res.evs, evJSON(ev))
		}
		res.left = vp.Buffered()
	}()
	select {
	case <-done:
	case <-time.After(5 * time.Second):
		res.stall = true
	}
	return res
}

func split(b []byte, cuts []int) [][]byte {
	var out [][]byte
	prev := 0
	for _, c := range cuts {
		out = append(out, b[prev:c])
		prev = c
	}
	return append(out, b[prev:])
}

type token struct {
	kind string
	b    []byte
}

// keyCaps returns the key capability fields (name -> sequence) of an entry.
func keyCaps(ti *terminfo.Terminfo) map[string]string {
	m := map[string]string{}
	v := reflect.ValueOf(*ti)
	for i := 0; i < v.NumField(); i++ {
		n := v.Type().Field(i).Name
		if strings.HasPrefix(n, "Key") && v.Field(i).Kind() == reflect.String && v.Field(i).String() != "" {
			m[n] = v.Field(i).String()
		}
	}
	return m
}

func sortedKeys(m map[string][2]int) []string {
	ks := make([]string, 0, len(m))
	for k := range m {
		ks = append(ks, k)
	}
	sort.Strings(ks)
	return ks
}

type inputGen struct {
	rng   *rand.Rand
	ti    terminfo.Terminfo
	table map[string][2]int
	seqs  []string
	cp    terminfo.Terminfo // the entry as the screen edited it
	mouse bool
	clip  bool
	paste bool
}

func (g *inputGen) tok() token {
	r := g.rng
	switch k := r.Intn(24); {
	case k >= 22:
		// the tail of a report without its introducer, at times with a byte that belongs to no report inside:
		// plain text, whatever stands before it
		tails := []string{"[<0;5;7M", "<0;5;7M", "[<;;M", "[<35;1;1m", "[M !!", "[I", "[O", "[200~", "[201~", "]52;c;QUJD\a", "OP", "[A", "[1;5A", ";5;7M"}
		t := []byte(tails[r.Intn(len(tails))])
		if r.Intn(2) == 0 {
			at := r.Intn(len(t) + 1)
			t = append(t[:at:at], append([]byte{"aZ ~x"[r.Intn(5)]}, t[at:]...)...)
		}
		return token{"tail", t}
	case k < 6 && g.mouse && r.Intn(8) == 0:
		// reports with a sign or a field in the wrong place: not mouse reports, their bytes are input like any other
		// (and negative coordinates, which are)
		bad := []string{"\x1b[<0;5-;7M", "\x1b[<0;--5;7M", "\x1b[<-;5;7M", "\x1b[-<0;5;7M", "\x1b[<0;-5;-7M", "\x1b[<0;5;7;9M", "\x1b[<0;5M",
			"\x1b[<0;5;7-M", "\x1b[<1-2;5;7M", "\x1b[<-0;-0;-0m"}
		return token{"tail", []byte(bad[r.Intn(len(bad))])}
	case k < 6 && len(g.seqs) > 0:
		return token{"key", []byte(g.seqs[r.Intn(len(g.seqs))])}
	case k < 8 && len(g.seqs) > 0: // Alt-prefixed key
		s := g.seqs[r.Intn(len(g.seqs))]
		if s[0] != 0x1b {
			return token{"altkey", append([]byte{0x1b}, s...)}
		}
		return token{"key", []byte(s)}
	case k < 10:
		runesl := []rune{'a', 'Z', '~', ' ', 0xe9, 0x3b1, 0x4e16, 0x1f600, 0x7ff, 0x800, 0xffff, 0x10000}
		return token{"text", []byte(string(runesl[r.Intn(len(runesl))]))}
	case k < 11:
		return token{"alttext", append([]byte{0x1b}, []byte(string([]rune{'x', 'Q', 0xe9, '[', 'O', ']', '<', 'a'}[r.Intn(8)]))...)}
	case k < 13 && g.mouse:
		fin := "M"
		if r.Intn(3) == 0 {
			fin = "m"
		}
		return token{"sgr", []byte(fmt.Sprintf("\x1b[<%d;%d;%d%s", []int{0, 1, 2, 32, 35, 64, 65, 4, 8, 16, 34}[r.Intn(11)], 1+r.Intn(120), 1+r.Intn(60), fin))}
	case k < 14 && g.mouse:
		return token{"x11", []byte{0x1b, '[', 'M', byte(32 + []int{0, 1, 2, 3, 32 + 3, 64, 65}[r.Intn(7)]), byte(33 + r.Intn(90)), byte(33 + r.Intn(60))}}
	case k < 15 && g.paste:
		if r.Intn(2) == 0 {
			return token{"paste", []byte("\x1b[200~")}
		}
		return token{"paste", []byte("\x1b[201~")}
	case k < 16:
		rep := "\x1b[I"
		if r.Intn(2) == 0 {
			rep = "\x1b[O"
		}
		if r.Intn(3) == 0 { // the same report twice in a row: two events
			rep += rep
		}
		return token{"focus", []byte(rep)}
	case k < 18 && g.clip:
		data := make([]byte, r.Intn(7))
		r.Read(data)
		term := "\x07"
		if r.Intn(2) == 0 {
			term = "\x1b\\"
		}
		return token{"osc52", []byte("\x1b]52;c;" + base64.StdEncoding.EncodeToString(data) + term)}
	case k < 19:
		return token{"ctrl", []byte{byte(r.Intn(27))}}
	case k < 20:
		return token{"del", []byte{0x7f}}
	default:
		return token{"text", []byte{byte('a' + r.Intn(26))}}
	}
}

// straddles reports whether some table sequence starts inside toks[i] (at its beginning)
// and extends past its end into the following bytes - a protocol ambiguity, not a tcell matter.
func (g *inputGen) ambiguous(toks []token) bool {
	var all []byte
	var starts []int
	for _, t := range toks {
		starts = append(starts, len(all))
		all = append(all, t.b...)
	}
	for i, t := range toks {
		rest := all[starts[i]:]
		for _, s := range g.seqs {
			if len(s) > len(t.b) && len(s) <= len(rest) && string(rest[:len(s)]) == s {
				return true
			}
			// a following token could also complete a longer sequence of which t is a proper prefix
			if len(s) > len(t.b) && strings.HasPrefix(s, string(t.b)) && len(rest) > len(t.b) && len(rest) < len(s) && strings.HasPrefix(s, string(rest)) {
				return true
			}
		}
		// a token that holds two sequences (a focus report sent twice): the second of them may start a table sequence
		// that the following token completes (rxvt: ESC [ O, then a)
		for o := 1; o < len(t.b); o++ {
			if t.b[o] != 0x1b {
				continue
			}
			tail := all[starts[i]+o:]
			for _, s := range g.seqs {
				if len(s) > len(t.b)-o && len(s) <= len(tail) && string(tail[:len(s)]) == s {
					return true
				}
			}
		}
		// ESC followed by anything is an Alt prefix: a lone ESC token may only end the string
		if len(t.b) == 1 && t.b[0] == 0x1b && i != len(toks)-1 {
			return true
		}
		// the built-in report formats share the CSI prefix with table keys (e.g. rxvt ESC [ O a vs focus-out)
		for _, pre := range []string{"\x1b[I", "\x1b[O", "\x1b[M", "\x1b[<", "\x1b]52;c;"} {
			if string(t.b) != pre && strings.HasPrefix(pre, string(t.b)) && len(pre) <= len(rest) && string(rest[:len(pre)]) == pre {
				return true
			}
		}
	}
	return false
}

func cutSets(n int, rng *rand.Rand, exhaustive bool) [][]int {
	var out [][]int
	if n <= 1 {
		return out
	}
	// byte at a time
	all := make([]int, 0, n-1)
	for i := 1; i < n; i++ {
		all = append(all, i)
	}
	out = append(out, all)
	if exhaustive && n <= 24 {
		for i := 1; i < n; i++ {
			out = append(out, []int{i})
		}
		if n <= 14 {
			for i := 1; i < n; i++ {
				for j := i + 1; j < n; j++ {
					out = append(out, []int{i, j})
				}
			}
		}
	} else {
		for k := 0; k < 6; k++ {
			m := 1 + rng.Intn(3)
			set := map[int]bool{}
			for len(set) < m && len(set) < n-1 {
				set[1+rng.Intn(n-1)] = true
			}
			var c []int
			for i := range set {
				c = append(c, i)
			}
			sort.Ints(c)
			out = append(out, c)
		}
	}
	return out
}

func inputMain(args []string) error {
	fs := flag.NewFlagSet("input", flag.ExitOnError)
	out := fs.String("out", "trace.ndjson", "trace file")
	seed := fs.Int64("seed", 1, "seed")
	mode := fs.String("mode", "chunk", "chunk | keys | text | mouse")
	n := fs.Int("n", 50, "strings per terminal (chunk), pairs per terminal (keys)")
	terms := fs.String("terms", "", "comma separated names (default all)")
	exh := fs.Bool("exhaustive", false, "all 1- and 2-cut partitions of short strings")
	alpha := fs.Int("alpha", 0, "chunk mode: also every string up to this length over {ESC [ O a I} under every partition (the InputModel space) on rxvt and xterm")
	fs.Parse(args)
	tw, err := trace.Create(*out)
	if err != nil {
		return err
	}
	rng := rand.New(rand.NewSource(*seed))
	var names []string
	for _, nm := range terminfo.VerifNames() {
		if *terms == "" || strings.Contains(","+*terms+",", ","+nm+",") {
			names = append(names, nm)
		}
	}
	st := map[string]interface{}{"terms": len(names)}
	switch *mode {
	case "chunk":
		err = inputChunk(tw, rng, names, *n, *exh, st)
		if err == nil && *alpha > 0 {
			err = inputAlpha(tw, *alpha, st)
		}
	case "keys":
		err = inputKeys(tw, rng, names, *n, st)
	case "mouse":
		err = inputMouse(tw, rng, names, *n, st)
	case "text":
		err = inputText(tw, rng, *n, *exh, st)
	default:
		err = fmt.Errorf("unknown mode")
	}
	if err != nil {
		return err
	}
	if err := tw.Close(); err != nil {
		return err
	}
	st["events"] = tw.N
	b, _ := json.Marshal(st)
	fmt.Println(string(b))
	return nil
}

func newGen(rng *rand.Rand, name string) (*inputGen, error) {
	ti := *terminfo.VerifEntry(name)
	cp := ti
	vp, err := tcell.NewVerifParser(&cp, "UTF-8", 80, 24)
	if err != nil {
		return nil, err
	}
	g := &inputGen{rng: rng, ti: ti, cp: cp, table: vp.KeyTable()}
	for _, s := range sortedKeys(g.table) {
		if s != "\x1b" {
			g.seqs = append(g.seqs, s)
		}
	}
	g.mouse = ti.Mouse != ""
	g.clip = cp.XTermLike
	g.paste = ti.EnablePaste != "" || ti.Mouse != "" || cp.XTermLike
	return g, nil
}

// chunkConfig describes the terminal's input language for the tokenizer model: the key table (restricted to the
// sequences over alphabet, when one is given), whether mouse reports and OSC 52 replies are recognised, and the
// key codes that stand for the paste brackets.
func (g *inputGen) chunkConfig(name string, alphabet []byte) trace.Ev {
	keys := []interface{}{}
	ps, pe := -1, -2
	for _, s := range sortedKeys(g.table) {
		v := g.table[s]
		if v[0] >= 16384 { // the internal key codes of the paste brackets: start, then end
			if ps < 0 || v[0] < ps {
				ps = v[0]
			}
			if v[0] > pe {
				pe = v[0]
			}
		}
		if s == "\x1b" || (alphabet != nil && strings.Trim(s, string(alphabet)) != "") {
			continue
		}
		keys = append(keys, []interface{}{trace.Ints([]byte(s)), v[0], v[1]})
	}
	return trace.Ev{"ev": "Config", "term": name, "mode": "chunk", "keys": keys, "mouse": g.mouse, "clip": g.clip, "ps": ps, "pe": pe}
}

func runEvent(kind string, id int, b []byte, cuts []int, r decodeResult) trace.Ev {
	if cuts == nil {
		cuts = []int{}
	}
	return trace.Ev{"ev": kind, "s": id, "bytes": trace.Ints(b), "cuts": cuts, "evs": r.evs, "left": r.left,
		"held": r.held, "panic": r.panicd, "stall": r.stall}
}

func inputChunk(tw *trace.Writer, rng *rand.Rand, names []string, n int, exh bool, st map[string]interface{}) error {
	strs, runs, distinct := 0, 0, map[string]bool{}
	samples := []string{}
	for _, name := range names {
		g, err := newGen(rng, name)
		if err != nil {
			return err
		}
		tw.Emit(trace.Ev{"ev": "Reset"})
		tw.Emit(g.chunkConfig(name, nil))
		for i := 0; i < n; i++ {
			id := strs
			strs++
			var b []byte
			var toks []token
			if rng.Intn(5) == 0 {
				// arbitrary bytes, biased to the interesting ones
				ln := 1 + rng.Intn(12)
				alpha := []byte{0x1b, '[', 'O', '<', ';', 'M', 'm', '1', '2', '~', ']', '5', 'c', 7, '\\', 0x9b, 0xc3, 0xa9, 0xe4, 0xb8, 0x96, 'a', 'A', 0xff, 0x80, 'I', '=', 0}
				for k := 0; k < ln; k++ {
					if rng.Intn(4) == 0 {
						b = append(b, byte(rng.Intn(256)))
					} else {
						b = append(b, alpha[rng.Intn(len(alpha))])
					}
				}
			} else {
				for try := 0; try < 20; try++ {
					toks = toks[:0]
					nt := 1 + rng.Intn(4)
					if rng.Intn(5) == 0 {
						// an Alt-prefixed character right before a report tail: nothing of it may be swallowed
						c := []byte{'x', 'O', 'a', '[', 0x14, '~'}[rng.Intn(6)]
						tail := []string{"[<0;5;7M", "[<;;M", "<0;5;7M", "[<35;1x;1m", "[M !!", "[ <1;2;3M", "[I"}[rng.Intn(7)]
						toks = append(toks, token{"alttext", []byte{0x1b, c}}, token{"tail", []byte(tail)})
					}
					for k := 0; k < nt; k++ {
						toks = append(toks, g.tok())
					}
					if rng.Intn(8) == 0 {
						toks = append(toks, token{"esc", []byte{0x1b}})
					}
					if !g.ambiguous(toks) {
						break
					}
					toks = toks[:0]
				}
				if len(toks) == 0 {
					toks = []token{{"text", []byte("a")}}
				}
				for _, t := range toks {
					b = append(b, t.b...)
				}
				var tp *tcell.VerifParser // one decoder for the tokens in turn: mouse button state carries over
				for _, t := range toks {
					r := decode(g.ti, "UTF-8", 80, 24, [][]byte{t.b}, &tp)
					e := runEvent("Tok", id, t.b, nil, r)
					e["kind"] = t.kind
					tw.Emit(e)
				}
			}
			if !distinct[string(b)] {
				distinct[string(b)] = true
				if len(samples) < 4 {
					samples = append(samples, fmt.Sprintf("%s: %q", name, b))
				}
			}
			r := decode(g.ti, "UTF-8", 80, 24, [][]byte{b}, nil)
			e := runEvent("Run", id, b, nil, r)
			e["tokens"] = len(toks)
			tw.Emit(e)
			runs++
			for _, cuts := range cutSets(len(b), rng, exh) {
				r := decode(g.ti, "UTF-8", 80, 24, split(b, cuts), nil)
				e := runEvent("Run", id, b, cuts, r)
				e["tokens"] = len(toks)
				tw.Emit(e)
				runs++
			}
			if rng.Intn(4) == 0 {
				// the same string on a decoder that has already decoded something and seen the timeout: nothing of the
				// earlier input (Alt flag, held bytes) may carry over, so the prediction for a fresh decoder applies
				priors := [][]byte{{0x1b}, {0x1b, 0x1b}, {0x1b, '['}, {0x1b, 'O'}, []byte("\x1b[<0;1"), {0xe4, 0xb8}, []byte("\x1b]52;c;QQ"), []byte("\x1b[M ")}
				var vp *tcell.VerifParser
				decode(g.ti, "UTF-8", 80, 24, [][]byte{priors[rng.Intn(len(priors))]}, &vp)
				r := decode(g.ti, "UTF-8", 80, 24, [][]byte{b}, &vp)
				e := runEvent("Run", 1<<24+id, b, nil, r)
				e["tokens"] = 0
				tw.Emit(e)
				runs++
			}
		}
	}
	// a clipboard reply for a large selection (several thousand base64 characters) under a few partitions
	for _, name := range names {
		if name != "xterm-256color" && name != "alacritty" && name != "tmux-256color" {
			continue
		}
		g, err := newGen(rng, name)
		if err != nil {
			return err
		}
		if !g.clip {
			continue
		}
		tw.Emit(trace.Ev{"ev": "Reset"})
		tw.Emit(g.chunkConfig(name, nil))
		data := make([]byte, 6600+rng.Intn(600))
		rng.Read(data)
		for k, term := range []string{"\x07", "\x1b\\"} {
			b := []byte("\x1b]52;c;" + base64.StdEncoding.EncodeToString(data) + term + "k")
			id := 1<<27 + runs + k
			r := decode(g.ti, "UTF-8", 80, 24, [][]byte{b}, nil)
			e := runEvent("Run", id, b, nil, r)
			e["tokens"] = 0
			e["nomodel"] = true // thousands of bytes: compared across partitions, not re-tokenized by the model
			tw.Emit(e)
			runs++
			for _, cuts := range [][]int{{100}, {8300}, {len(b) - 2}, {4000, 8250, 8400}, {8192 + 8}} {
				r := decode(g.ti, "UTF-8", 80, 24, split(b, cuts), nil)
				e := runEvent("Run", id, b, cuts, r)
				e["tokens"] = 0
				tw.Emit(e)
				runs++
			}
		}
	}
	// the same through a live screen: the bytes arrive on a fake tty, the escape timeout is the real 50 ms timer of
	// the main loop, the events come out of PollEvent - predicted by the tokenizer model like every other run
	for _, name := range names {
		if name != "xterm-256color" && name != "vt100" && name != "rxvt" && name != "linux" {
			continue
		}
		g, err := newGen(rng, name)
		if err != nil {
			return err
		}
		tw.Emit(trace.Ev{"ev": "Reset"})
		tw.Emit(g.chunkConfig(name, nil))
		for k, b := range [][]byte{{0x1b}, {0x1b, 0x1b}, {0x1b, '['}, {0xe4, 0xb8}, []byte("a\x1b"), []byte("\x1b[<0;1"), []byte("\x1bOx\x1b"), []byte("zz")} {
			evs, err := liveDecode(g.ti, b)
			if err != nil {
				return err
			}
			e := trace.Ev{"ev": "Run", "s": 1<<26 + runs + k, "bytes": trace.Ints(b), "cuts": []int{}, "evs": evs, "left": 0, "held": 0,
				"panic": false, "stall": false, "tokens": 0, "live": true}
			tw.Emit(e)
			runs++
		}
	}
	st["histories"], st["ops"], st["distinct"], st["samples"] = strs, runs, len(distinct), samples
	return nil
}

// liveDecode types b at a real screen on a fake tty and returns the input events that come out of PollEvent until
// the screen has been quiet for 300 ms (at most 3 s).
func liveDecode(ti terminfo.Terminfo, b []byte) ([]interface{}, error) {
	os.Setenv("LC_ALL", "en_US.UTF-8")
	tty := faketty.New(80, 24)
	s, err := tcell.NewTerminfoScreenFromTtyTerminfo(tty, &ti)
	if err != nil {
		return nil, err
	}
	if err := s.Init(); err != nil {
		return nil, err
	}
	defer s.Fini()
	s.EnableMouse()
	s.EnablePaste()
	s.EnableFocus()
	evc := make(chan tcell.Event, 64)
	go func() {
		for {
			ev := s.PollEvent()
			if ev == nil {
				close(evc)
				return
			}
			evc <- ev
		}
	}()
	tty.Inject(b)
	evs := []interface{}{}
	limit := time.After(3 * time.Second)
	for {
		select {
		case ev, ok := <-evc:
			if !ok {
				return evs, nil
			}
			switch ev.(type) {
			case *tcell.EventKey, *tcell.EventMouse, *tcell.EventPaste, *tcell.EventFocus, *tcell.EventClipboard:
				evs = append(evs, evJSON(ev))
			}
		case <-time.After(300 * time.Millisecond):
			return evs, nil
		case <-limit:
			return evs, nil
		}
	}
}

// liveSplit types a and then b at a real screen on a fake tty, with a resize notification in between.
func liveSplit(ti terminfo.Terminfo, a, b []byte) ([]interface{}, bool, error) {
	os.Setenv("LC_ALL", "en_US.UTF-8")
	tty := faketty.New(80, 24)
	s, err := tcell.NewTerminfoScreenFromTtyTerminfo(tty, &ti)
	if err != nil {
		return nil, false, err
	}
	if err := s.Init(); err != nil {
		return nil, false, err
	}
	defer s.Fini()
	evc := make(chan tcell.Event, 64)
	go func() {
		for {
			ev := s.PollEvent()
			if ev == nil {
				close(evc)
				return
			}
			evc <- ev
		}
	}()
	time.Sleep(2 * time.Millisecond)
	t0 := time.Now()
	tty.Inject(a)
	time.Sleep(3 * time.Millisecond) // the main loop now holds the first piece
	tty.SetSize(80, 24, true)        // a notification without a size change
	time.Sleep(3 * time.Millisecond)
	tty.Inject(b)
	late := time.Since(t0) > 25*time.Millisecond
	evs := []interface{}{}
	limit := time.After(3 * time.Second)
	for {
		select {
		case ev, ok := <-evc:
			if !ok {
				return evs, late, nil
			}
			switch ev.(type) {
			case *tcell.EventKey, *tcell.EventMouse, *tcell.EventPaste, *tcell.EventFocus:
				evs = append(evs, evJSON(ev))
			}
		case <-time.After(200 * time.Millisecond):
			return evs, late, nil
		case <-limit:
			return evs, late, nil
		}
	}
}

// inputAlpha replays the state space of spec/InputModel.tla through the real decoder: every string over
// the model's alphabet up to maxLen, under every partition into reads.
func inputAlpha(tw *trace.Writer, maxLen int, st map[string]interface{}) error {
	alphabet := []byte{0x1b, '[', 'O', 'a', 'I'}
	runs := 0
	id := 1 << 20
	for _, name := range []string{"rxvt", "xterm-256color"} {
		ti := *terminfo.VerifEntry(name)
		tw.Emit(trace.Ev{"ev": "Reset"})
		g, err := newGen(rand.New(rand.NewSource(1)), name)
		if err != nil {
			return err
		}
		tw.Emit(g.chunkConfig(name, alphabet))
		var rec func(prefix []byte)
		rec = func(prefix []byte) {
			if len(prefix) > 0 {
				id++
				b := append([]byte{}, prefix...)
				for mask := 0; mask < 1<<uint(len(b)-1); mask++ {
					var cuts []int
					for c := 1; c < len(b); c++ {
						if mask&(1<<uint(c-1)) != 0 {
							cuts = append(cuts, c)
						}
					}
					r := decode(ti, "UTF-8", 80, 24, split(b, cuts), nil)
					e := runEvent("Run", id, b, cuts, r)
					e["tokens"] = 0
					tw.Emit(e)
					runs++
				}
			}
			if len(prefix) == maxLen {
				return
			}
			for _, c := range alphabet {
				rec(append(append([]byte{}, prefix...), c))
			}
		}
		rec(nil)
	}
	st["model_space_runs"] = runs
	return nil
}

// ---------------------------------------------------------------- keys (C03)

var keyNames = map[string]tcell.Key{
	"KeyBackspace": tcell.KeyBackspace, "KeyInsert": tcell.KeyInsert, "KeyDelete": tcell.KeyDelete, "KeyHome": tcell.KeyHome,
	"KeyEnd": tcell.KeyEnd, "KeyHelp": tcell.KeyHelp, "KeyPgUp": tcell.KeyPgUp, "KeyPgDn": tcell.KeyPgDn, "KeyUp": tcell.KeyUp,
	"KeyDown": tcell.KeyDown, "KeyLeft": tcell.KeyLeft, "KeyRight": tcell.KeyRight, "KeyBacktab": tcell.KeyBacktab,
	"KeyExit": tcell.KeyExit, "KeyClear": tcell.KeyClear, "KeyPrint": tcell.KeyPrint, "KeyCancel": tcell.KeyCancel,
}

// capMeaning gives, for a key capability field, the (key, modifiers) the description assigns.
func capMeaning(name string) (tcell.Key, tcell.ModMask, bool) {
	if k, ok := keyNames[name]; ok {
		return k, 0, true
	}
	if strings.HasPrefix(name, "KeyF") {
		var n int
		if _, err := fmt.Sscanf(name, "KeyF%d", &n); err == nil && n >= 1 && n <= 64 {
			return tcell.KeyF1 + tcell.Key(n-1), 0, true
		}
	}
	mods := []struct {
		p string
		m tcell.ModMask
	}{{"KeyCtrlShf", tcell.ModCtrl | tcell.ModShift}, {"KeyAltShf", tcell.ModAlt | tcell.ModShift}, {"KeyMetaShf", tcell.ModMeta | tcell.ModShift},
		{"KeyShf", tcell.ModShift}, {"KeyCtrl", tcell.ModCtrl}, {"KeyAlt", tcell.ModAlt}, {"KeyMeta", tcell.ModMeta}}
	for _, m := range mods {
		if strings.HasPrefix(name, m.p) {
			if k, ok := keyNames["Key"+name[len(m.p):]]; ok {
				return k, m.m, true
			}
		}
	}
	return 0, 0, false
}

func inputKeys(tw *trace.Writer, rng *rand.Rand, names []string, npairs int, st map[string]interface{}) error {
	entries, decodes := 0, 0
	samples := []string{}
	for _, name := range names {
		g, err := newGen(rng, name)
		if err != nil {
			return err
		}
		caps := keyCaps(&g.ti)
		capList := []interface{}{}
		cnames := make([]string, 0, len(caps))
		for c := range caps {
			cnames = append(cnames, c)
		}
		sort.Strings(cnames)
		for _, c := range cnames {
			k, m, ok := capMeaning(c)
			if !ok {
				continue // capabilities tcell's Key type has no name for (e.g. KeyShfInsert) are listed with key -1
			}
			capList = append(capList, []interface{}{c, trace.Str(caps[c]), int(k), int(m)})
		}
		// capabilities without a tcell key of their own
		for _, c := range cnames {
			if _, _, ok := capMeaning(c); !ok {
				capList = append(capList, []interface{}{c, trace.Str(caps[c]), -1, 0})
			}
		}
		tw.Emit(trace.Ev{"ev": "Reset"})
		tw.Emit(trace.Ev{"ev": "Config", "term": name, "mode": "keys", "caps": capList, "xtermmods": g.ti.Modifiers == terminfo.ModifiersXTerm,
			"keypad": g.ti.EnterKeypad != "", "kF1": int(tcell.KeyF1), "kUp": int(tcell.KeyUp), "kDown": int(tcell.KeyDown),
			"kRight": int(tcell.KeyRight), "kLeft": int(tcell.KeyLeft), "kHome": int(tcell.KeyHome), "kEnd": int(tcell.KeyEnd),
			"kDelete": int(tcell.KeyDelete), "kPgUp": int(tcell.KeyPgUp), "kPgDn": int(tcell.KeyPgDn), "kInsert": int(tcell.KeyInsert),
			"kRune": int(tcell.KeyRune), "kPasteStart": 16384, "kPasteEnd": 16385,
			"hasPaste": g.paste})
		// the table itself
		for _, s := range sortedKeys(g.table) {
			v := g.table[s]
			tw.Emit(trace.Ev{"ev": "Entry", "seq": trace.Str(s), "key": v[0], "mod": v[1]})
			entries++
		}
		// every sequence alone (8 times: map iteration order), with an Alt prefix, and pairs
		all := append([]string{}, g.seqs...)
		for _, c := range cnames { // capability sequences the table may lack
			if _, ok := g.table[caps[c]]; !ok {
				all = append(all, caps[c])
			}
		}
		// the modifier forms xterm defines for cursor, editing and function keys (parameter 2..16)
		if g.ti.Modifiers == terminfo.ModifiersXTerm {
			for _, c := range []string{"KeyUp", "KeyDown", "KeyRight", "KeyLeft", "KeyInsert", "KeyDelete", "KeyPgUp", "KeyPgDn",
				"KeyHome", "KeyEnd", "KeyF1", "KeyF2", "KeyF3", "KeyF4", "KeyF5", "KeyF6", "KeyF7", "KeyF8", "KeyF9", "KeyF10", "KeyF11", "KeyF12"} {
				v := caps[c]
				for m := 2; m <= 16; m++ {
					var f string
					if strings.HasPrefix(v, "\x1b[") && strings.HasSuffix(v, "~") {
						f = fmt.Sprintf("%s;%d~", v[:len(v)-1], m)
					} else if strings.HasPrefix(v, "\x1bO") && len(v) == 3 {
						f = fmt.Sprintf("\x1b[1;%d%s", m, v[2:])
					} else {
						continue
					}
					if _, ok := g.table[f]; !ok {
						all = append(all, f)
					}
				}
			}
		}
		sort.Strings(all)
		for _, s := range all {
			var first []interface{}
			stable := true
			for rep := 0; rep < 8; rep++ {
				r := decode(g.ti, "UTF-8", 80, 24, [][]byte{[]byte(s)}, nil)
				if rep == 0 {
					first = r.evs
					e := runEvent("Decode", 0, []byte(s), nil, r)
					tw.Emit(e)
					decodes++
				} else if !reflect.DeepEqual(first, r.evs) {
					stable = false
				}
			}
			if !stable {
				tw.Emit(trace.Ev{"ev": "Unstable", "seq": trace.Str(s)})
			}
			if s[0] != 0x1b || len(s) > 1 {
				r := decode(g.ti, "UTF-8", 80, 24, [][]byte{append([]byte{0x1b}, s...)}, nil)
				tw.Emit(runEvent("AltDecode", 0, []byte(s), nil, r))
				decodes++
			}
		}
		r := decode(g.ti, "UTF-8", 80, 24, [][]byte{{0x1b}}, nil)
		tw.Emit(runEvent("EscDecode", 0, []byte{0x1b}, nil, r))
		// once the timeout has delivered a lone ESC (or ESC ESC), the decoder is back in its initial state:
		// the next sequence decodes as it does on a fresh decoder
		for i, s := range all {
			if i%5 != 0 && len(all) > 20 {
				continue
			}
			priors := [][]byte{{0x1b}, {0x1b, 0x1b}}
			if s[0] != 0x1b || len(s) > 1 {
				// the same key with Alt (ESC prefix) came before, or another key with Alt: complete sequences, the decoder
				// keeps nothing of them
				priors = append(priors, append([]byte{0x1b}, s...), append([]byte{0x1b}, all[(i+7)%len(all)]...))
			}
			for _, prior := range priors {
				var vp *tcell.VerifParser
				decode(g.ti, "UTF-8", 80, 24, [][]byte{prior}, &vp)
				r := decode(g.ti, "UTF-8", 80, 24, [][]byte{[]byte(s)}, &vp)
				e := runEvent("AfterEsc", 0, []byte(s), nil, r)
				e["prior"] = trace.Ints(prior)
				tw.Emit(e)
				decodes++
			}
		}
		// live screen: a key sequence arrives in two reads within the escape timeout, and a resize notification is
		// handled between them - the key still decodes as one (late = the pieces were more than 25 ms apart)
		// (not on entries with padding delays: their resize redraw sleeps for longer than the escape timeout)
		if name == "xterm-256color" || name == "rxvt" || name == "linux" {
			cnt := 0
			for _, s := range all {
				if len(s) < 2 || cnt >= 10 {
					continue
				}
				cnt++
				for cut := 1; cut < len(s) && cut <= 2; cut++ {
					// up to three tries: a scheduling hiccup longer than the 50 ms timeout may tear one of them, a defect
					// tears all of them
					tries := []interface{}{}
					anyLate := false
					for try := 0; try < 3; try++ {
						evs, late, err := liveSplit(g.ti, []byte(s[:cut]), []byte(s[cut:]))
						if err != nil {
							return err
						}
						anyLate = anyLate || late
						tries = append(tries, evs)
						if len(evs) == 1 {
							break
						}
					}
					tw.Emit(trace.Ev{"ev": "LiveSplit", "s": 0, "bytes": trace.Ints([]byte(s)), "cuts": []int{cut}, "tries": tries, "left": 0, "held": 0,
						"panic": false, "stall": false, "late": anyLate})
					decodes++
				}
			}
		}
		// xterm modifier forms for cursor / editing / function keys
		for i := 0; i < npairs && len(all) > 1; i++ {
			a, b := all[rng.Intn(len(all))], all[rng.Intn(len(all))]
			if g.ambiguous([]token{{"key", []byte(a)}, {"key", []byte(b)}}) {
				continue
			}
			r := decode(g.ti, "UTF-8", 80, 24, [][]byte{[]byte(a + b)}, nil)
			e := runEvent("PairDecode", 0, []byte(a+b), []int{len(a)}, r)
			tw.Emit(e)
			decodes++
		}
		if len(samples) < 3 && len(all) > 0 {
			samples = append(samples, fmt.Sprintf("%s: %q", name, all[len(all)/2]))
		}
	}
	st["histories"], st["ops"], st["distinct"], st["samples"] = len(names), decodes, entries, samples
	return nil
}

// ---------------------------------------------------------------- mouse (C12)

func inputMouse(tw *trace.Writer, rng *rand.Rand, names []string, n int, st map[string]interface{}) error {
	reports, seqs := 0, 0
	samples := []string{}
	for _, name := range names {
		ti := *terminfo.VerifEntry(name)
		if ti.Mouse == "" {
			continue
		}
		w, h := 80, 24
		tw.Emit(trace.Ev{"ev": "Reset"})
		tw.Emit(trace.Ev{"ev": "Config", "term": name, "mode": "mouse", "W": w, "H": h})
		coords := []int{-3, -1, 0, 1, 2, w - 1, w, w + 1, 99, 100, 223, 1000, 65535, 65536, 70000, -70000, 1000000}
		one := func(form string, btn, x, y int, fin byte, intro8 bool, vp **tcell.VerifParser) {
			var b []byte
			if intro8 {
				b = []byte{0x9b}
			} else {
				b = []byte{0x1b, '['}
			}
			if form == "sgr" {
				b = append(b, []byte(fmt.Sprintf("<%d;%d;%d%c", btn, x, y, fin))...)
			} else {
				b = append(b, 'M', byte(btn+32), byte(x+32), byte(y+32))
			}
			r := decode(ti, "UTF-8", w, h, [][]byte{b}, vp)
			e := runEvent("Mouse", 0, b, nil, r)
			e["form"], e["btn"], e["x"], e["y"], e["fin"], e["fresh"] = form, btn, x, y, int(fin), vp == nil
			tw.Emit(e)
			reports++
		}
		// exhaustive single reports on a fresh decoder
		for btn := 0; btn < 256; btn++ {
			for _, fin := range []byte{'M', 'm'} {
				c := coords[(btn+int(fin))%len(coords)]
				c2 := coords[(btn*7+3)%len(coords)]
				one("sgr", btn, c, c2, fin, btn%5 == 0, nil)
			}
		}
		for _, x := range coords {
			for _, y := range coords {
				one("sgr", []int{0, 2, 35, 64}[(x+y+400000)%4], x, y, 'M', false, nil)
			}
		}
		for btn := 0; btn < 224; btn++ {
			one("x11", btn, 1+(btn*3)%200, 1+(btn*5)%180, 'M', btn%7 == 0, nil)
		}
		// coordinate bytes below 33 (cells at or left of / above the origin): clipped to 0
		for _, c := range []int{-31, -20, -1, 0} {
			one("x11", 0, c, 5, 'M', false, nil)
			one("x11", 35, 7, c, 'M', c%2 == 0, nil)
			one("x11", 2, c, c, 'M', false, nil)
		}
		// a report and what follows it in the same read: a typed character, or the next report (each form, 7- and 8-bit introducer)
		for _, form := range []string{"sgr", "x11"} {
			for _, intro8 := range []bool{false, true} {
				for _, next := range []string{"char", "report"} {
					mk := func(x, y int) []byte {
						var b []byte
						if intro8 {
							b = []byte{0x9b}
						} else {
							b = []byte{0x1b, '['}
						}
						if form == "sgr" {
							return append(b, []byte(fmt.Sprintf("<0;%d;%dM", x, y))...)
						}
						return append(b, 'M', byte(0+32), byte(x+32), byte(y+32))
					}
					b := mk(3, 4)
					if next == "char" {
						b = append(b, 'z')
					} else {
						b = append(b, mk(6, 2)...)
					}
					r := decode(ti, "UTF-8", w, h, [][]byte{b}, nil)
					e := runEvent("MouseThen", 0, b, nil, r)
					e["form"], e["next"], e["intro8"] = form, next, intro8
					tw.Emit(e)
					reports++
				}
			}
		}
		// press / motion / wheel / release sequences on one decoder
		for i := 0; i < n; i++ {
			var vp *tcell.VerifParser
			tw.Emit(trace.Ev{"ev": "MouseSeq"})
			seqs++
			ln := 2 + rng.Intn(10)
			form := "sgr" // a terminal reports in one encoding; every third sequence uses the legacy one
			if i%3 == 2 {
				form = "x11"
			}
			for k := 0; k < ln; k++ {
				x, y := 1+rng.Intn(w+5), 1+rng.Intn(h+5)
				mods := []int{0, 4, 8, 16, 12, 28}[rng.Intn(6)]
				switch rng.Intn(6) {
				case 0, 1: // press
					one(form, rng.Intn(3)+mods, x, y, 'M', false, &vp)
				case 2: // motion, with a button or without
					one(form, 32+rng.Intn(4)+mods, x, y, 'M', false, &vp)
				case 3: // wheel
					one(form, 64+rng.Intn(2)+mods, x, y, 'M', false, &vp)
				default: // release
					if form == "sgr" {
						one(form, rng.Intn(3)+mods, x, y, 'm', false, &vp)
					} else {
						one(form, 3+mods, x, y, 'M', false, &vp)
					}
				}
			}
		}
		// every sequence of up to three reports over a small alphabet (press of each button, release, motion, wheel) on one
		// decoder, in both encodings: which buttons are held is a function of the reports so far
		if name == "xterm-256color" || name == "linux" || name == "rxvt-unicode" || n > 100 {
			type rep struct {
				btn int
				fin byte
			}
			alpha := []rep{{0, 'M'}, {1, 'M'}, {2, 'M'}, {0, 'm'}, {1, 'm'}, {2, 'm'}, {32, 'M'}, {35, 'M'}, {34, 'M'}, {64, 'M'}, {0 + 16, 'M'}}
			var walk func(form string, pre []rep, depth int)
			walk = func(form string, pre []rep, depth int) {
				if depth == 0 {
					var vp *tcell.VerifParser
					tw.Emit(trace.Ev{"ev": "MouseSeq"})
					seqs++
					for k, r := range pre {
						if form == "x11" && r.fin == 'm' {
							one(form, 3, 2+k, 3, 'M', false, &vp) // the legacy release does not say which button
						} else {
							one(form, r.btn, 2+k, 3, r.fin, false, &vp)
						}
					}
					return
				}
				for _, a := range alpha {
					walk(form, append(append([]rep{}, pre...), a), depth-1)
				}
			}
			for _, form := range []string{"sgr", "x11"} {
				walk(form, nil, 2)
				if name == "xterm-256color" {
					walk(form, nil, 3)
				}
			}
		}
		// a live screen: press, then the application touches the mouse modes (or suspends and resumes) before the
		// release, then drag motion and the release - whether a button is held depends on the reports alone
		for variant := 0; variant < 5; variant++ {
			if err := liveMouse(tw, name, w, h, variant); err != nil {
				return err
			}
			seqs++
			reports += 3
		}
		if len(samples) < 2 {
			samples = append(samples, name+": ESC[<0;5;5M ... 256 codes x M/m x boundary coordinates")
		}
	}
	st["histories"], st["ops"], st["distinct"], st["samples"] = seqs, reports, reports, samples
	return nil
}

// liveMouse drives a real screen on a fake tty: SGR press, a mode call of the application, drag motion, release.
func liveMouse(tw *trace.Writer, name string, w, h, variant int) error {
	ti := *terminfo.VerifEntry(name)
	tty := faketty.New(w, h)
	s, err := tcell.NewTerminfoScreenFromTtyTerminfo(tty, &ti)
	if err != nil {
		return err
	}
	if err := s.Init(); err != nil {
		return err
	}
	defer s.Fini()
	s.EnableMouse()
	evc := make(chan tcell.Event, 64)
	go func() {
		for {
			ev := s.PollEvent()
			if ev == nil {
				close(evc)
				return
			}
			evc <- ev
		}
	}()
	tw.Emit(trace.Ev{"ev": "MouseSeq"})
	report := func(btn, x, y int, fin byte) {
		b := []byte(fmt.Sprintf("\x1b[<%d;%d;%d%c", btn, x, y, fin))
		tty.Inject(b)
		evs := []interface{}{}
		deadline := time.After(2 * time.Second)
	wait:
		for {
			select {
			case ev, ok := <-evc:
				if !ok {
					break wait
				}
				if _, isMouse := ev.(*tcell.EventMouse); isMouse {
					evs = append(evs, evJSON(ev))
					break wait
				}
			case <-deadline:
				break wait
			}
		}
		tw.Emit(trace.Ev{"ev": "Mouse", "s": 0, "bytes": trace.Ints(b), "cuts": []int{}, "evs": evs, "left": 0, "held": 0, "panic": false,
			"stall": false, "form": "sgr", "btn": btn, "x": x, "y": y, "fin": int(fin), "fresh": false, "live": variant})
	}
	report(0, 5, 5, 'M')
	switch variant {
	case 0:
		s.EnableMouse(tcell.MouseButtonEvents | tcell.MouseDragEvents)
	case 1:
		s.DisableMouse()
		s.EnableMouse()
	case 2:
		s.Suspend()
		s.Resume()
	case 4:
		// the application turns the mouse off while the button is down: the release that is already on its way
		// is still reported, so the press gets its buttonless event
		s.DisableMouse()
		report(0, 6, 5, 'm')
		return nil
	default: // nothing in between
	}
	report(32, 6, 5, 'M')
	report(0, 6, 5, 'm')
	return nil
}

// ---------------------------------------------------------------- text (C11)

func inputText(tw *trace.Writer, rng *rand.Rand, n int, exh bool, st map[string]interface{}) error {
	return textRuns(tw, rng, n, exh, st)
}

var _ = utf8.RuneLen

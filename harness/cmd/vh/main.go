// Command vh is the verification harness: each sub-command drives one area of the
// real tcell code (built from /repo's working tree) and records an NDJSON trace
// that the corresponding TLA+ trace specification validates.
package main

import (
	"fmt"
	"os"
	"sort"
)

type command struct {
	run  func(args []string) error
	help string
}

var commands = map[string]command{}

func register(name, help string, run func(args []string) error) {
	commands[name] = command{run: run, help: help}
}

func main() {
	if len(os.Args) < 2 {
		usage()
	}
	c, ok := commands[os.Args[1]]
	if !ok {
		usage()
	}
	if err := c.run(os.Args[2:]); err != nil {
		fmt.Fprintln(os.Stderr, "vh:", err)
		os.Exit(2)
	}
}

func usage() {
	names := make([]string, 0, len(commands))
	for n := range commands {
		names = append(names, n)
	}
	sort.Strings(names)
	fmt.Fprintln(os.Stderr, "usage: vh <area> [flags]")
	for _, n := range names {
		fmt.Fprintf(os.Stderr, "  %-10s %s\n", n, commands[n].help)
	}
	os.Exit(2)
}

package main

import (
	"encoding/json"
	"errors"
	"flag"
	"fmt"
	"math/rand"
	"os"
	"runtime"
	"strings"
	"sync"
	"sync/atomic"
	"time"

	"github.com/gdamore/tcell/v2"
	"github.com/gdamore/tcell/v2/terminfo"
	_ "github.com/gdamore/tcell/v2/terminfo/extended"

	"verifharness/faketty"
	"verifharness/ptytty"
	"verifharness/trace"
)

func init() {
	register("pipe", "C05 C06: drive the event pipeline and the shutdown protocol of a live terminfo screen", pipeMain)
}

var pipeSeq int64

func seq() int { return int(atomic.AddInt64(&pipeSeq, 1)) }

type pipeLog struct {
	mu sync.Mutex
	tw *trace.Writer
}

func (l *pipeLog) emit(e trace.Ev) {
	l.mu.Lock()
	e["seq"] = seq()
	l.tw.Emit(e)
	l.mu.Unlock()
}

// liveTty is the terminal side of a running screen: the fake Tty, or the master of a pseudo-terminal whose slave
// tcell drives with its real device Tty (tty_unix.go).
type liveTty interface {
	Inject(b []byte)
	SetSize(w, h int, fire bool) bool
	FailRead(err error)
}

var pipeTtyKind = "fake"

func newLiveScreen(term string, w, h int) (tcell.Screen, liveTty, error) {
	ti := *terminfo.VerifEntry(term)
	var tty tcell.Tty
	var live liveTty
	if pipeTtyKind == "pty" {
		p, err := ptytty.Open(w, h)
		if err != nil {
			return nil, nil, err
		}
		if tty, err = p.Tty(); err != nil {
			return nil, nil, err
		}
		live = p
	} else {
		f := faketty.New(w, h)
		tty, live = f, f
	}
	s, err := tcell.NewTerminfoScreenFromTtyTerminfo(tty, &ti)
	if err != nil {
		return nil, nil, err
	}
	if err := s.Init(); err != nil {
		return nil, nil, err
	}
	return s, live, nil
}

// ptyUnavailable reports why no pseudo-terminal can be had here ("" when one can).
func ptyUnavailable() string {
	p, err := ptytty.Open(10, 4)
	if err != nil {
		return err.Error()
	}
	p.Close()
	return ""
}

// skipRun writes an empty trace and a summary that says why nothing ran.
func skipRun(out, why string) error {
	tw, err := trace.Create(out)
	if err != nil {
		return err
	}
	if err := tw.Close(); err != nil {
		return err
	}
	sum, _ := json.Marshal(map[string]interface{}{"skipped": why, "histories": 0, "events": 0, "ops": 0, "distinct": 0})
	fmt.Println(string(sum))
	return nil
}

// releaseTty frees the pseudo-terminal of a finished scenario.
func releaseTty(t liveTty) {
	if p, ok := t.(*ptytty.Pty); ok {
		p.Close()
	}
}

// idRune gives input event k a rune of its own (two UTF-8 bytes each, so chunks can be 1-3 events).
func idRune(k int) rune { return rune(0x100 + k) }

// whenInfo calls When() on a delivered event, reporting a panic instead of crashing.
func whenInfo(ev tcell.Event) (t time.Time, panicked bool) {
	defer func() {
		if recover() != nil {
			panicked = true
		}
	}()
	return ev.When(), false
}

// ------------------------------------------------------------------ C05

// pipeChannelQuit: ChannelEvents forwards a few posted events, then quit is closed while the forwarder is idle.
func pipeChannelQuit(l *pipeLog, rng *rand.Rand) error {
	s, tty, err := newLiveScreen("xterm-256color", 20, 5)
	if err != nil {
		return err
	}
	defer releaseTty(tty)
	for idle := 0; idle < 3; idle++ { // the initial resize event
		if !drainPending(s, "ChanQuit", l.emit, func(tcell.Event) { idle = -1 }) {
			break
		}
		time.Sleep(2 * time.Millisecond)
	}
	ch := make(chan tcell.Event)
	quit := make(chan struct{})
	go s.ChannelEvents(ch, quit)
	n := rng.Intn(4)
	posted, forwarded := []int{}, []int{}
	for i := 0; i < n; i++ {
		if s.PostEvent(tcell.NewEventInterrupt(i)) == nil {
			posted = append(posted, i)
		}
	}
	for range posted {
		select {
		case ev, ok := <-ch:
			if iv, isI := ev.(*tcell.EventInterrupt); ok && isI {
				forwarded = append(forwarded, iv.Data().(int))
			}
		case <-time.After(2 * time.Second):
		}
	}
	time.Sleep(time.Duration(5+rng.Intn(20)) * time.Millisecond)
	close(quit)
	closed, after := false, 0
	deadline := time.After(time.Second)
wait:
	for {
		select {
		case _, ok := <-ch:
			if !ok {
				closed = true
				break wait
			}
			after++
		case <-deadline:
			break wait
		}
	}
	postOK := s.PostEvent(tcell.NewEventInterrupt(99)) == nil
	polled := false
	got := make(chan tcell.Event, 1)
	go func() { got <- s.PollEvent() }()
	select {
	case ev := <-got:
		if iv, ok := ev.(*tcell.EventInterrupt); ok && iv.Data() == 99 {
			polled = true
		}
	case <-time.After(time.Second):
	}
	l.emit(trace.Ev{"ev": "ChanQuit", "posted": posted, "forwarded": forwarded, "closed": closed, "after_quit": after,
		"post_ok": postOK, "polled": polled})
	fin := make(chan struct{})
	go func() { s.Fini(); close(fin) }()
	select {
	case <-fin:
	case <-time.After(10 * time.Second):
		l.emit(trace.Ev{"ev": "FiniHang"})
	}
	return nil
}

// bulk: all keys arrive as one paste of three-byte characters (the 128-byte reads of the input loop end inside
// characters) and the application polls slowly throughout.
func pipeDelivery(l *pipeLog, rng *rand.Rand, nkeys, nposters, nposts int, useChannel, bulk bool) error {
	s, tty, err := newLiveScreen("xterm-256color", 200, 60)
	if err != nil {
		return err
	}
	defer releaseTty(tty)
	s.EnableFocus()
	s.EnableMouse()
	l.emit(trace.Ev{"ev": "Reset"})
	l.emit(trace.Ev{"ev": "Start", "keys": nkeys, "posters": nposters, "posts": nposts, "channel": useChannel, "kRune": int(tcell.KeyRune)})
	t0 := time.Now()
	us := func(t time.Time) int { return int(t.Sub(t0) / time.Microsecond) }
	var wg sync.WaitGroup
	done := make(chan struct{})
	// consumer
	wg.Add(1)
	consumed := make(chan struct{}, 1)
	expectTotal := int64(0)
	got := int64(0)
	seenEv := map[tcell.Event]bool{} // only the poller goroutine records
	record := func(ev tcell.Event, pending bool, waited time.Duration) {
		when, p := whenInfo(ev)
		e := trace.Ev{"ev": "Poll", "whenpanic": p, "pending": pending, "waited_us": int(waited / time.Microsecond), "at": us(time.Now())}
		e["dup"] = seenEv[ev] // the very same event object delivered before
		seenEv[ev] = true
		if !p {
			e["when"] = us(when)
		}
		switch v := ev.(type) {
		case *tcell.EventKey:
			e["kind"], e["id"] = "in", int(v.Rune())-0x100
			if v.Rune() >= 0x1000 {
				e["id"] = int(v.Rune()) - 0x1000
			}
			if v.Key() != tcell.KeyRune {
				e["kind"] = "other"
			}
		case *tcell.EventMouse: // a hover-motion report whose position encodes the sequence number
			x, y := v.Position()
			e["kind"], e["id"] = "in", y*180+x
			if v.Buttons() != tcell.ButtonNone {
				e["kind"] = "other"
			}
		case *tcell.EventInterrupt:
			d := v.Data().([2]int)
			e["kind"], e["p"], e["n"] = "post", d[0], d[1]
		case *tcell.EventFocus:
			e["kind"] = "focus"
		case *tcell.EventResize:
			e["kind"] = "resize"
		case *tcell.EventPaste:
			e["kind"], e["start"] = "paste", v.Start()
		default:
			e["kind"] = "other"
		}
		l.emit(e)
		if e["kind"] == "in" || e["kind"] == "post" || e["kind"] == "focus" || e["kind"] == "paste" {
			atomic.AddInt64(&got, 1)
			select {
			case consumed <- struct{}{}:
			default:
			}
		}
	}
	var evch chan tcell.Event
	quitch := make(chan struct{})
	if useChannel {
		evch = make(chan tcell.Event)
		go s.ChannelEvents(evch, quitch)
	}
	go func() {
		defer wg.Done()
		prng := rand.New(rand.NewSource(rng.Int63()))
		if bulk {
			// the application is away for more than a second while a whole paste is waiting: both queues are full, the
			// rest of the input is held back - for as long as it takes, nothing is given up
			time.Sleep(1300 * time.Millisecond)
		}
		for {
			select {
			case <-done:
				return
			default:
			}
			if prng.Intn(4) == 0 {
				time.Sleep(time.Duration(prng.Intn(3000)) * time.Microsecond)
			}
			if bulk {
				time.Sleep(2 * time.Millisecond)
			}
			if prng.Intn(40) == 0 { // the application is busy for longer than the escape timeout: the queues back up
				time.Sleep(time.Duration(70+prng.Intn(60)) * time.Millisecond)
			}
			if useChannel {
				select {
				case ev, ok := <-evch:
					if !ok {
						l.emit(trace.Ev{"ev": "ChanClosed"})
						return
					}
					record(ev, false, 0)
				case <-done:
					return
				}
				continue
			}
			pending := s.HasPendingEvent()
			ts := time.Now()
			ev := s.PollEvent()
			if ev == nil {
				l.emit(trace.Ev{"ev": "PollNil"})
				return
			}
			record(ev, pending, time.Since(ts))
		}
	}()
	// posters
	var pwg sync.WaitGroup
	for p := 0; p < nposters; p++ {
		pwg.Add(1)
		go func(p int) {
			defer pwg.Done()
			prng := rand.New(rand.NewSource(int64(p)*7919 + rng.Int63()))
			for n := 0; n < nposts; n++ {
				ev := tcell.NewEventInterrupt([2]int{p, n})
				if p == 2 { // the third poster waits for room instead: always accepted, logged before the (blocking) call
					atomic.AddInt64(&expectTotal, 1)
					l.mu.Lock()
					l.tw.Emit(trace.Ev{"ev": "Post", "p": p, "n": n, "ok": true, "full": false, "wait": true, "seq": seq(), "at": us(time.Now())})
					l.mu.Unlock()
					s.PostEventWait(ev)
					continue
				}
				l.mu.Lock() // the call and its log line are one step: posting order = log order per poster
				err := s.PostEvent(ev)
				ok := err == nil
				if ok {
					atomic.AddInt64(&expectTotal, 1)
				}
				e := trace.Ev{"ev": "Post", "p": p, "n": n, "ok": ok, "full": errors.Is(err, tcell.ErrEventQFull), "seq": seq(), "at": us(time.Now())}
				l.tw.Emit(e)
				l.mu.Unlock()
				if prng.Intn(3) == 0 {
					time.Sleep(time.Duration(prng.Intn(800)) * time.Microsecond)
				}
			}
		}(p)
	}
	// injector
	k := 0
	if bulk {
		var b []byte
		ids := []int{}
		for ; k < nkeys; k++ {
			b = append(b, []byte(string(rune(0x1000+k)))...)
			ids = append(ids, k)
		}
		l.emit(trace.Ev{"ev": "Inject", "ids": ids, "focus": false, "paste": false, "at": us(time.Now())})
		atomic.AddInt64(&expectTotal, int64(len(ids)))
		tty.Inject(b)
	}
	for k < nkeys {
		n := 1 + rng.Intn(3)
		var b []byte
		ids := []int{}
		mouse := rng.Intn(5) == 0 // this chunk's events are hover-motion reports instead of characters
		for i := 0; i < n && k < nkeys; i++ {
			if mouse && k%3 == 1 {
				// a release report with no press before it (the press went to another window): an event all the same
				b = append(b, []byte(fmt.Sprintf("\x1b[<0;%d;%dm", 1+k%180, 1+k/180))...)
			} else if mouse {
				b = append(b, []byte(fmt.Sprintf("\x1b[<35;%d;%dM", 1+k%180, 1+k/180))...)
			} else {
				b = append(b, []byte(string(idRune(k)))...)
			}
			ids = append(ids, k)
			k++
		}
		paste := !mouse && rng.Intn(10) == 0 // the characters of this chunk arrive as a bracketed paste
		if paste {
			b = append(append([]byte("\x1b[200~"), b...), []byte("\x1b[201~")...)
			atomic.AddInt64(&expectTotal, 2)
		}
		focus := rng.Intn(15) == 0
		if focus {
			b = append(b, []byte("\x1b[I")...)
		}
		l.emit(trace.Ev{"ev": "Inject", "ids": ids, "focus": focus, "paste": paste, "at": us(time.Now())})
		atomic.AddInt64(&expectTotal, int64(len(ids)))
		if focus {
			atomic.AddInt64(&expectTotal, 1)
		}
		if len(b) > 1 && rng.Intn(3) == 0 { // the read ends inside a character or a report
			k := 1 + rng.Intn(len(b)-1)
			tty.Inject(b[:k])
			if rng.Intn(2) == 0 {
				time.Sleep(time.Duration(rng.Intn(400)) * time.Microsecond)
			}
			if rng.Intn(3) == 0 { // a resize notification (the size may be the same) between the two pieces
				tty.SetSize(200+rng.Intn(2), 60, true)
			}
			tty.Inject(b[k:])
		} else {
			tty.Inject(b)
		}
		if rng.Intn(3) == 0 {
			time.Sleep(time.Duration(rng.Intn(1500)) * time.Microsecond)
		}
		if rng.Intn(25) == 0 {
			tty.SetSize(200+rng.Intn(5), 60, true)
		}
		if rng.Intn(40) == 0 { // a long pause of the application: both queues fill up
			time.Sleep(30 * time.Millisecond)
		}
	}
	pwg.Wait()
	// quiescence: everything accepted must arrive
	deadline := time.After(15 * time.Second)
	for atomic.LoadInt64(&got) < atomic.LoadInt64(&expectTotal) {
		select {
		case <-consumed:
		case <-time.After(100 * time.Millisecond):
		case <-deadline:
			goto out
		}
	}
out:
	l.emit(trace.Ev{"ev": "Quiescent", "got": int(atomic.LoadInt64(&got)), "expected": int(atomic.LoadInt64(&expectTotal))})
	fin := make(chan struct{})
	go func() { s.Fini(); close(fin) }()
	select {
	case <-fin:
	case <-time.After(10 * time.Second):
		l.emit(trace.Ev{"ev": "FiniHang"})
		close(done)
		return nil
	}
	if useChannel {
		// the forwarder must close the channel on Fini
		select {
		case _, ok := <-evch:
			for ok {
				_, ok = <-evch
			}
			l.emit(trace.Ev{"ev": "ChanClosed"})
		case <-time.After(3 * time.Second):
			l.emit(trace.Ev{"ev": "ChanStillOpen"})
		}
	}
	close(done)
	wg.Wait()
	l.emit(trace.Ev{"ev": "End"})
	return nil
}

// ------------------------------------------------------------------ C06

func goroutineDump() string {
	buf := make([]byte, 1<<20)
	n := runtime.Stack(buf, true)
	return string(buf[:n])
}

// tcellFrames extracts the tcell frames that are parked on a channel or WaitGroup.
func tcellFrames(dump string) []string {
	var out []string
	for _, g := range strings.Split(dump, "\n\n") {
		if !strings.Contains(g, "gdamore/tcell/v2.(*tScreen)") && !strings.Contains(g, "gdamore/tcell/v2.(*baseScreen)") {
			continue
		}
		lines := strings.Split(g, "\n")
		head := lines[0]
		fn := ""
		for _, ln := range lines[1:] {
			if strings.Contains(ln, "gdamore/tcell/v2.") {
				fn = strings.TrimSpace(ln)
				if i := strings.Index(fn, "("); i > 0 {
					fn = fn[strings.LastIndex(fn[:i], "/")+1:]
				}
				break
			}
		}
		out = append(out, head+" @ "+fn)
	}
	return out
}

// pipeHangs counts watchdog expiries in this process; wedged goroutines (some of them spinning)
// accumulate, so exploration stops after a few - the run is a violation anyway.
var pipeHangs int

type startState struct {
	eq      int  // events left unpolled in the event queue (0..10)
	chunks  int  // further chunks injected without polling (they back up in keychan / the loops)
	readErr bool // the tty read fails just before the shutdown
	resize  bool // a resize notification is pending
	poller  bool // a goroutine is blocked in PollEvent
	waiter  bool // a goroutine is blocked in PostEventWait
}

func pipeShutdown(l *pipeLog, st startState, kind string, rep int) error {
	s, tty, err := newLiveScreen("xterm-256color", 20, 5)
	if err != nil {
		return err
	}
	defer releaseTty(tty)
	base := runtime.NumGoroutine()
	// drain the initial resize event so that the queue level is ours to set
	drainPending(s, "Shutdown", l.emit, nil)
	for i := 0; i < st.eq; i++ {
		s.PostEvent(tcell.NewEventInterrupt(i))
	}
	for i := 0; i < st.chunks; i++ {
		tty.Inject([]byte("ab"))
	}
	if st.chunks > 0 {
		time.Sleep(2 * time.Millisecond) // let the loops pick up what they can
	}
	if st.resize {
		tty.SetSize(21, 5, true)
	}
	// one collector goroutine does all polling: started now if the start state has a blocked poller,
	// otherwise when events are first needed
	evc := make(chan tcell.Event, 256)
	collecting := false
	collect := func() {
		if collecting {
			return
		}
		collecting = true
		go func() {
			for {
				ev := s.PollEvent()
				if ev == nil {
					return
				}
				evc <- ev
			}
		}()
	}
	if st.poller && st.eq == 0 && st.chunks == 0 {
		collect()
	}
	if st.waiter {
		go s.PostEventWait(tcell.NewEventInterrupt("w"))
	}
	if st.readErr {
		tty.FailRead(errors.New("injected read error"))
		time.Sleep(time.Millisecond)
	}
	e := trace.Ev{"ev": "Shutdown", "kind": kind, "rep": rep, "eq": st.eq, "chunks": st.chunks, "readerr": st.readErr,
		"resize": st.resize, "poller": st.poller, "waiter": st.waiter}
	call := func(name string, f func()) (bool, int) {
		done := make(chan struct{})
		t0 := time.Now()
		go func() { f(); close(done) }()
		select {
		case <-done:
			return true, int(time.Since(t0) / time.Millisecond)
		case <-time.After(1500 * time.Millisecond):
		}
		select { // second deadline
		case <-done:
			return true, int(time.Since(t0) / time.Millisecond)
		case <-time.After(3500 * time.Millisecond):
			pipeHangs++
			return false, int(time.Since(t0) / time.Millisecond)
		}
	}
	steps := []interface{}{}
	hang := func(name string) {
		e["hang"] = name
		e["frames"] = tcellFrames(goroutineDump())
	}
	step := func(name string, f func()) bool {
		ok, ms := call(name, f)
		steps = append(steps, []interface{}{name, ok, ms})
		if !ok {
			hang(name)
		}
		return ok
	}
	e["hang"] = ""
	e["frames"] = []string{}
	alive := true
	switch kind {
	case "fini":
		// every other repetition: a ChannelEvents forwarder is running and its reader is not receiving when Fini
		// comes (events queued or in the forwarder's hand): the channel is closed all the same, nothing stale is
		// delivered after Fini, and the forwarder has returned
		var fch chan tcell.Event
		fwdDone := make(chan struct{})
		if rep%2 == 1 {
			fch = make(chan tcell.Event)
			go func() { s.ChannelEvents(fch, make(chan struct{})); close(fwdDone) }()
			time.Sleep(2 * time.Millisecond)
		}
		alive = step("Fini", s.Fini)
		if alive && fch != nil {
			time.Sleep(20 * time.Millisecond)
			stale, closedF := 0, false
			deadline := time.After(time.Second)
		fwd:
			for {
				select {
				case _, ok := <-fch:
					if !ok {
						closedF = true
						break fwd
					}
					stale++
				case <-deadline:
					break fwd
				}
			}
			returned := false
			select {
			case <-fwdDone:
				returned = true
			case <-time.After(500 * time.Millisecond):
			}
			e["fwd"] = map[string]interface{}{"closed": closedF, "stale": stale, "returned": returned}
		}
	case "suspend":
		alive = step("Suspend", func() { s.Suspend() })
	case "suspend-resume-fini":
		alive = step("Suspend", func() { s.Suspend() })
		if alive {
			alive = step("Resume", func() { s.Resume() })
		}
		if alive {
			// input and resize delivery work again
			collect()
			waitFor := func(match func(tcell.Event) bool) bool {
				deadline := time.After(3 * time.Second)
				for {
					select {
					case ev := <-evc:
						if match(ev) {
							return true
						}
					case <-deadline:
						return false
					}
				}
			}
			tty.Inject([]byte("z"))
			// (a read error that is still pending when the new input loop starts ends input for good)
			e["resumed_input"] = st.readErr || waitFor(func(ev tcell.Event) bool {
				k, ok := ev.(*tcell.EventKey)
				return ok && k.Rune() == 'z'
			})
			// resize events are posted without blocking and dropped when the queue is full (by design):
			// let the backlog drain before raising one
			for idle := false; !idle; {
				select {
				case <-evc:
				case <-time.After(40 * time.Millisecond):
					idle = true
				}
			}
			tty.SetSize(25, 6, true)
			e["resumed_resize"] = waitFor(func(ev tcell.Event) bool {
				r, ok := ev.(*tcell.EventResize)
				if !ok {
					return false
				}
				w, _ := r.Size()
				return w == 25
			})
			alive = step("Fini", s.Fini)
		}
	case "fini-fini":
		alive = step("Fini", s.Fini)
		if alive {
			alive = step("Fini2", s.Fini)
		}
	}
	finished := alive && kind != "suspend"
	e["finished"] = finished
	if finished {
		// inert after Fini
		pollNil := false
		if step("PollEvent", func() { pollNil = s.PollEvent() == nil }) {
			e["poll_nil"] = pollNil
		}
		ch := make(chan tcell.Event)
		closed := false
		step("ChannelEvents", func() {
			go s.ChannelEvents(ch, make(chan struct{}))
			select {
			case _, ok := <-ch:
				for ok {
					_, ok = <-ch
				}
				closed = true
			case <-time.After(time.Second):
			}
		})
		e["chan_closed"] = closed
		panics := []string{}
		for _, c := range []struct {
			name string
			f    func()
		}{
			{"SetContent", func() { s.SetContent(0, 0, 'x', nil, tcell.StyleDefault) }},
			{"Size", func() { s.Size() }},
			{"Show", func() { s.Show() }},
			{"Sync", func() { s.Sync() }},
			{"Clear", func() { s.Clear() }},
			{"EnableMouse", func() { s.EnableMouse() }},
			{"SetTitle", func() { s.SetTitle("t") }},
			{"Beep", func() { s.Beep() }},
			{"PostEvent", func() { s.PostEvent(tcell.NewEventInterrupt(nil)) }},
			{"HasPendingEvent", func() { s.HasPendingEvent() }},
			{"ShowCursor", func() { s.ShowCursor(1, 1) }},
			{"Colors", func() { s.Colors() }},
			{"HideCursor", func() { s.HideCursor() }},
			{"SetCursorStyle", func() { s.SetCursorStyle(tcell.CursorStyleBlinkingBar, tcell.ColorRed) }},
			{"DisableMouse", func() { s.DisableMouse() }},
			{"EnablePaste", func() { s.EnablePaste() }},
			{"DisablePaste", func() { s.DisablePaste() }},
			{"EnableFocus", func() { s.EnableFocus() }},
			{"DisableFocus", func() { s.DisableFocus() }},
			{"SetClipboard", func() { s.SetClipboard([]byte("x")) }},
			{"GetClipboard", func() { s.GetClipboard() }},
			{"SetSize", func() { s.SetSize(30, 7) }},
			{"SetStyle", func() { s.SetStyle(tcell.StyleDefault.Bold(true)) }},
			{"Fill", func() { s.Fill('.', tcell.StyleDefault) }},
			{"GetContent", func() { s.GetContent(0, 0) }},
			{"LockRegion", func() { s.LockRegion(0, 0, 2, 2, true) }},
			{"CanDisplay", func() { s.CanDisplay('x', true) }},
			{"RegisterRuneFallback", func() { s.RegisterRuneFallback(0x2192, ">") }},
			{"HasKey", func() { s.HasKey(tcell.KeyF1) }},
			{"HasMouse", func() { s.HasMouse() }},
			{"CharacterSet", func() { s.CharacterSet() }},
			{"Suspend", func() { s.Suspend() }},
			{"Resume", func() { s.Resume() }},
			{"Fini3", func() { s.Fini() }},
		} {
			c := c
			ok := step(c.name, func() {
				defer func() {
					if recover() != nil {
						panics = append(panics, c.name)
					}
				}()
				c.f()
			})
			if !ok {
				break // a wedged call holds the screen lock: everything after it would block too
			}
		}
		e["panics"] = panics
		time.Sleep(5 * time.Millisecond)
		left := 0
		for _, f := range tcellFrames(goroutineDump()) {
			if strings.Contains(f, "inputLoop") || strings.Contains(f, "mainLoop") {
				left++
			}
		}
		e["loops_left"] = left
	} else if alive && kind == "suspend" {
		time.Sleep(5 * time.Millisecond)
		left := 0
		for _, f := range tcellFrames(goroutineDump()) {
			if strings.Contains(f, "inputLoop") || strings.Contains(f, "mainLoop") {
				left++
			}
		}
		e["loops_left"] = left
		step("Fini", s.Fini)
	}
	e["steps"] = steps
	_ = base
	if os.Getenv("VH_DEBUG") != "" {
		fmt.Fprintf(os.Stderr, "%s %+v hang=%v hangs=%d\n", kind, st, e["hang"], pipeHangs)
	}
	l.emit(e)
	return nil
}

func pipeMain(args []string) error {
	fs := flag.NewFlagSet("pipe", flag.ExitOnError)
	out := fs.String("out", "trace.ndjson", "trace file")
	seed := fs.Int64("seed", 1, "seed")
	mode := fs.String("mode", "delivery", "delivery | shutdown")
	runs := fs.Int("runs", 10, "delivery runs / repetitions of each start state")
	ttyKind := fs.String("tty", "fake", "fake | pty (tcell's real device Tty on a pseudo-terminal)")
	allBulk := fs.Bool("bulk", false, "delivery: every run is a paste of three-byte characters to a slowly polling application")
	fs.Parse(args)
	pipeTtyKind = *ttyKind
	if pipeTtyKind == "pty" {
		if why := ptyUnavailable(); why != "" {
			return skipRun(*out, why)
		}
	}
	os.Setenv("LC_ALL", "en_US.UTF-8")
	tw, err := trace.Create(*out)
	if err != nil {
		return err
	}
	l := &pipeLog{tw: tw}
	rng := rand.New(rand.NewSource(*seed))
	hists, ops := 0, 0
	samples := []string{}
	if *mode == "delivery" {
		for i := 0; i < *runs; i++ {
			nk, np, nn := 60+rng.Intn(80), 1+rng.Intn(3), 10+rng.Intn(40)
			bulk := i%5 == 4 || *allBulk
			if bulk {
				nk = 250 + rng.Intn(200)
			}
			if err := pipeDelivery(l, rng, nk, np, nn, i%4 == 3, bulk); err != nil {
				return err
			}
			hists++
			ops += nk + np*nn
		}
		l.emit(trace.Ev{"ev": "Reset"})
		for i := 0; i < 6; i++ {
			if err := pipeChannelQuit(l, rng); err != nil {
				return err
			}
			ops++
		}
		samples = append(samples, "120 sequence-numbered keys in chunks of 1-3, 2 posters x 40 PostEvent, poller with random pauses")
	} else {
		l.emit(trace.Ev{"ev": "Reset"})
		var states []startState
		for _, eq := range []int{0, 5, 10} {
			for _, ch := range []int{0, 1, 3, 12, 30} {
				for _, re := range []bool{false, true} {
					for _, rz := range []bool{false, true} {
						states = append(states, startState{eq: eq, chunks: ch, readErr: re, resize: rz, poller: eq == 0 && ch == 0, waiter: eq == 10 && ch == 0 && !re})
					}
				}
			}
		}
		kinds := []string{"fini", "suspend", "suspend-resume-fini", "fini-fini"}
		for _, st := range states {
			for _, kind := range kinds {
				for rep := 0; rep < *runs; rep++ {
					if pipeTtyKind == "pty" && st.readErr && kind == "suspend-resume-fini" {
						continue // after a hang-up the device is gone: there is nothing to resume on
					}
					if pipeHangs >= 4 {
						l.emit(trace.Ev{"ev": "Aborted", "hangs": pipeHangs})
						goto finish
					}
					if err := pipeShutdown(l, st, kind, rep); err != nil {
						return err
					}
					hists++
					ops++
				}
			}
			l.emit(trace.Ev{"ev": "Reset"})
		}
	finish:
		samples = append(samples, "eventQ=10/10 unpolled, 30 chunks backed up, read error pending -> Fini under a watchdog, then PollEvent/ChannelEvents/Show...")
	}
	if err := tw.Close(); err != nil {
		return err
	}
	sum, _ := json.Marshal(map[string]interface{}{"histories": hists, "events": tw.N, "ops": ops, "distinct": hists, "samples": samples})
	fmt.Println(string(sum))
	return nil
}

package main

import (
	"encoding/json"
	"flag"
	"fmt"
	"math/rand"
	"os"
	"runtime"
	"strconv"
	"strings"
	"sync"
	"time"

	"github.com/gdamore/tcell/v2"
	"github.com/gdamore/tcell/v2/encoding"
	"github.com/gdamore/tcell/v2/terminfo"

	"verifharness/faketty"
	"verifharness/ptytty"
	"verifharness/trace"
)

func init() {
	register("race", "C10: lock-protocol trace (verif lock hook) and concurrent method pairs (for -race builds)", raceMain)
}

func gid() int {
	var buf [64]byte
	n := runtime.Stack(buf[:], false)
	f := strings.Fields(string(buf[:n]))
	if len(f) > 1 {
		if id, err := strconv.Atoi(f[1]); err == nil {
			return id
		}
	}
	return -1
}

// gidTty wraps the fake tty so that every Write is logged with the writing goroutine.
type gidTty struct {
	*faketty.Tty
	log    func(trace.Ev)
	during *string
}

func (t *gidTty) Write(b []byte) (int, error) {
	t.log(trace.Ev{"ev": "Write", "g": gid(), "data": trace.Ints(b), "during": *t.during})
	return t.Tty.Write(b)
}

type screenMethod struct {
	name string
	f    func(s tcell.Screen, i int)
}

func screenMethods() []screenMethod {
	runesl := []rune{'a', 0x4e16, 0xe9, 0x2192, 0x3b1, 'Z'}
	return []screenMethod{
		{"SetContent", func(s tcell.Screen, i int) {
			s.SetContent(i%7, i%3, runesl[i%len(runesl)], nil, tcell.StyleDefault.Foreground(tcell.PaletteColor(i%16)))
		}},
		{"GetContent", func(s tcell.Screen, i int) { s.GetContent(i%7, i%3) }},
		{"Fill", func(s tcell.Screen, i int) { s.Fill(runesl[i%3], tcell.StyleDefault) }},
		{"Show", func(s tcell.Screen, i int) { s.Show() }},
		{"Sync", func(s tcell.Screen, i int) { s.Sync() }},
		{"SetStyle", func(s tcell.Screen, i int) { s.SetStyle(tcell.StyleDefault.Background(tcell.PaletteColor(i % 8))) }},
		{"ShowCursor", func(s tcell.Screen, i int) { s.ShowCursor(i%5, i%2) }},
		{"SetCursorStyle", func(s tcell.Screen, i int) { s.SetCursorStyle(tcell.CursorStyle(i%7), tcell.PaletteColor(i%16)) }},
		{"Size", func(s tcell.Screen, i int) { s.Size() }},
		{"EnableMouse", func(s tcell.Screen, i int) { s.EnableMouse(tcell.MouseFlags(1 + i%7)) }},
		{"EnablePaste", func(s tcell.Screen, i int) { s.EnablePaste() }},
		{"EnableFocus", func(s tcell.Screen, i int) { s.EnableFocus() }},
		{"SetTitle", func(s tcell.Screen, i int) { s.SetTitle("t" + strconv.Itoa(i)) }},
		{"SetClipboard", func(s tcell.Screen, i int) { s.SetClipboard([]byte("c")) }},
		{"Beep", func(s tcell.Screen, i int) { s.Beep() }},
		{"SetSize", func(s tcell.Screen, i int) { s.SetSize(8+i%3, 3+i%2) }},
		{"CanDisplay", func(s tcell.Screen, i int) { s.CanDisplay(runesl[i%len(runesl)], i%2 == 0) }},
		{"RegisterRuneFallback", func(s tcell.Screen, i int) { s.RegisterRuneFallback(runesl[i%len(runesl)], "?") }},
		{"UnregisterRuneFallback", func(s tcell.Screen, i int) { s.UnregisterRuneFallback(runesl[(i+1)%len(runesl)]) }},
		{"LockRegion", func(s tcell.Screen, i int) { s.LockRegion(i%3, 0, 2, 1, i%2 == 0) }},
		{"Colors", func(s tcell.Screen, i int) { s.Colors() }},
		{"HasKey", func(s tcell.Screen, i int) { s.HasKey(tcell.KeyF1) }},
		{"HasMouse", func(s tcell.Screen, i int) { s.HasMouse() }},
		{"CharacterSet", func(s tcell.Screen, i int) { s.CharacterSet() }},
		{"PostEvent", func(s tcell.Screen, i int) { s.PostEvent(tcell.NewEventInterrupt(i)) }},
		{"HasPendingEvent", func(s tcell.Screen, i int) { s.HasPendingEvent() }},
	}
}

// simMethods: the SimulationScreen's own calls (tests drive them from their goroutine while the code under test draws)
func simMethods() []screenMethod {
	sim := func(s tcell.Screen) tcell.SimulationScreen { return s.(tcell.SimulationScreen) }
	return []screenMethod{
		{"GetContents", func(s tcell.Screen, i int) { sim(s).GetContents() }},
		{"GetCursor", func(s tcell.Screen, i int) { sim(s).GetCursor() }},
		{"InjectKey", func(s tcell.Screen, i int) { sim(s).InjectKey(tcell.KeyRune, rune('a'+i%26), tcell.ModNone) }},
		{"InjectKeyBytes", func(s tcell.Screen, i int) { sim(s).InjectKeyBytes([]byte{'x', 0xe9}[:1+i%2]) }},
		{"InjectMouse", func(s tcell.Screen, i int) { sim(s).InjectMouse(i%9, i%3, tcell.Button1, tcell.ModNone) }},
	}
}

func raceMain(args []string) error {
	fs := flag.NewFlagSet("race", flag.ExitOnError)
	out := fs.String("out", "trace.ndjson", "trace file")
	seed := fs.Int64("seed", 1, "seed")
	mode := fs.String("mode", "lock", "lock | race")
	iters := fs.Int("iters", 40, "iterations per side of a pair (race mode)")
	charset := fs.String("charset", "UTF-8", "locale charset")
	pairsel := fs.String("pairs", "", "only pairs a:b,c:d (race mode)")
	startAt := fs.Int("start", 0, "skip the first N pairs (race mode; used to resume after a fatal runtime error)")
	stride := fs.Int("stride", 1, "run every stride-th pair (race mode)")
	kind := fs.String("screen", "tty", "tty (terminfo screen on a fake tty) | sim (SimulationScreen) | pty (real device Tty on a pseudo-terminal), race mode")
	fs.Parse(args)
	encoding.Register()
	if *charset == "UTF-8" {
		os.Setenv("LC_ALL", "en_US.UTF-8")
	} else {
		os.Setenv("LC_ALL", "en_US."+*charset)
	}
	tw, err := trace.Create(*out)
	if err != nil {
		return err
	}
	rng := rand.New(rand.NewSource(*seed))
	var mu sync.Mutex
	emit := func(e trace.Ev) {
		mu.Lock()
		tw.Emit(e)
		mu.Unlock()
	}
	methods := screenMethods()
	if *kind == "sim" {
		methods = append(methods, simMethods()...)
	}
	if *kind == "pty" {
		// the real device Tty (tty_unix.go) on a pseudo-terminal: Suspend/Resume cycles against the library's own
		// SIGWINCH goroutine and a few drawing calls
		if why := ptyUnavailable(); why != "" {
			return skipRun(*out, why)
		}
		keep := map[string]bool{"Show": true, "Sync": true, "SetSize": true, "Size": true, "SetContent": true, "Beep": true}
		var ms []screenMethod
		for _, m := range methods {
			if keep[m.name] {
				ms = append(ms, m)
			}
		}
		methods = append([]screenMethod{{"SuspendResume", func(s tcell.Screen, i int) { s.Suspend(); s.Resume() }}}, ms...)
	}
	ops := 0
	if *mode == "lock" {
		for _, term := range []string{"xterm-256color", "vt100", "linux"} {
			emit(trace.Ev{"ev": "Reset"})
			during := "Init"
			ti := *terminfo.VerifEntry(term)
			ftty := faketty.New(10, 4)
			tty := &gidTty{Tty: ftty, log: emit, during: &during}
			tcell.VerifLockHook = func(op string) { emit(trace.Ev{"ev": op, "g": gid()}) }
			s, err := tcell.NewTerminfoScreenFromTtyTerminfo(tty, &ti)
			if err != nil {
				return err
			}
			me := gid()
			emit(trace.Ev{"ev": "Call", "g": me, "m": "Init"})
			if err := s.Init(); err != nil {
				return err
			}
			emit(trace.Ev{"ev": "Return", "g": me, "m": "Init"})
			call := func(name string, f func()) {
				during = name
				emit(trace.Ev{"ev": "Call", "g": me, "m": name})
				f()
				emit(trace.Ev{"ev": "Return", "g": me, "m": name})
				ops++
			}
			for round := 0; round < 3; round++ {
				for _, m := range methods {
					m := m
					call(m.name, func() { m.f(s, rng.Intn(100)) })
				}
				// library goroutines: input decoding and the resize redraw
				during = "DecodeInput"
				ftty.Inject([]byte("a\x1b[A"))
				time.Sleep(3 * time.Millisecond)
				during = "MainLoopResize"
				before := ftty.Writes()
				ftty.SetSize(9+round, 4, true)
				done := make(chan struct{})
				tm := time.AfterFunc(3*time.Second, func() { close(done) })
				ftty.WaitWrites(before+1, done)
				tm.Stop()
				s.Size()
				call("Suspend", func() { s.Suspend() })
				call("Resume", func() { s.Resume() })
			}
			call("Fini", func() { s.Fini() })
			tcell.VerifLockHook = nil
		}
	} else {
		// concurrent pairs for the race detector: the runner parses its reports from stderr
		emit(trace.Ev{"ev": "Reset"})
		sel := map[string]bool{}
		pairIdx := 0
		for _, p := range strings.Split(*pairsel, ",") {
			if p != "" {
				sel[p] = true
			}
		}
		for ai, a := range methods {
			for bi, b := range methods {
				if bi < ai {
					continue
				}
				pair := a.name + ":" + b.name
				if len(sel) > 0 && !sel[pair] {
					continue
				}
				if *kind == "pty" && (a.name != "SuspendResume" || b.name == "SuspendResume") {
					// one goroutine cycles Suspend/Resume, the other draws or asks for the size (two goroutines
					// suspending and resuming against each other is not a use the properties speak about)
					continue
				}
				pairIdx++
				if pairIdx <= *startAt || (pairIdx+int(*seed))%*stride != 0 {
					continue
				}
				fmt.Fprintf(os.Stderr, "@@IDX %d\n", pairIdx)
				var s tcell.Screen
				var ftty *faketty.Tty
				var pty *ptytty.Pty
				if *kind == "pty" {
					var err error
					if pty, err = ptytty.Open(10, 4); err != nil {
						return err
					}
					dt, err := pty.Tty()
					if err != nil {
						return err
					}
					ti := *terminfo.VerifEntry("xterm-256color")
					if s, err = tcell.NewTerminfoScreenFromTtyTerminfo(dt, &ti); err != nil {
						return err
					}
				} else if *kind == "sim" {
					ss := tcell.NewSimulationScreen(*charset)
					if ss == nil {
						return fmt.Errorf("no simulation screen for charset %s", *charset)
					}
					s = ss
				} else {
					ti := *terminfo.VerifEntry("xterm-256color")
					ftty = faketty.New(10, 4)
					var err error
					s, err = tcell.NewTerminfoScreenFromTtyTerminfo(ftty, &ti)
					if err != nil {
						return err
					}
				}
				if err := s.Init(); err != nil {
					return err
				}
				if *kind == "sim" {
					s.SetSize(10, 4)
				}
				fmt.Fprintf(os.Stderr, "@@PAIR %s\n", pair)
				var wg sync.WaitGroup
				stop := make(chan struct{})
				go func() { // the application's poller
					for {
						if s.PollEvent() == nil {
							return
						}
					}
				}()
				wg.Add(2)
				for side, m := range []screenMethod{a, b} {
					go func(side int, m screenMethod) {
						defer wg.Done()
						defer func() {
							if x := recover(); x != nil {
								emit(trace.Ev{"ev": "Fatal", "pair": pair, "msg": fmt.Sprint(x)})
							}
						}()
						lr := rand.New(rand.NewSource(*seed*31 + int64(side))) // a generator of this goroutine's own
						for i := 0; i < *iters; i++ {
							m.f(s, lr.Intn(1000))
							if i%8 == 0 {
								runtime.Gosched()
							}
						}
					}(side, m)
				}
				// library traffic
				go func() {
					for i := 0; ; i++ {
						select {
						case <-stop:
							return
						default:
						}
						if pty != nil {
							pty.Inject([]byte("x"))
							pty.SetSize(10+i%3, 4, true) // raises SIGWINCH in this process
							time.Sleep(300 * time.Microsecond)
							continue
						}
						if ftty == nil { // the simulator has no tty: its input side is the test's own calls (pair methods)
							time.Sleep(200 * time.Microsecond)
							continue
						}
						ftty.Inject([]byte("x\x1b[<0;2;2M"))
						if i%4 == 0 {
							ftty.SetSize(10+i%3, 4, true)
						}
						time.Sleep(200 * time.Microsecond)
					}
				}()
				wg.Wait()
				close(stop)
				s.Fini()
				if pty != nil {
					pty.Close()
				}
				fmt.Fprintf(os.Stderr, "@@ENDPAIR %s\n", pair)
				emit(trace.Ev{"ev": "Pair", "pair": pair})
				ops++
			}
		}
	}
	if err := tw.Close(); err != nil {
		return err
	}
	sum, _ := json.Marshal(map[string]interface{}{"histories": ops, "events": tw.N, "ops": ops, "distinct": ops,
		"samples": []string{"Call Show / lock / Write(ESC[?25l...) / unlock / Return Show", "pair Show:Beep x 40 iterations each under -race"}})
	fmt.Println(string(sum))
	return nil
}

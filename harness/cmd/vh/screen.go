package main

import (
	"bufio"
	"encoding/json"
	"flag"
	"fmt"
	"math/rand"
	"os"
	"reflect"
	"regexp"
	"sort"
	"strings"
	"time"

	"github.com/gdamore/tcell/v2"
	"github.com/gdamore/tcell/v2/encoding"
	"github.com/gdamore/tcell/v2/terminfo"
	_ "github.com/gdamore/tcell/v2/terminfo/extended"

	"verifharness/faketty"
	"verifharness/lab"
	"verifharness/runes"
	"verifharness/tcx"
	"verifharness/trace"
)

func init() {
	register("screen", "C01 C04 C09 C13 C17: drive a terminfo screen on a fake tty, log calls and written bytes", screenMain)
}

// sop is one planned operation on the screen.
type sop struct {
	Op   string        `json:"op"`
	X    int           `json:"x,omitempty"`
	Y    int           `json:"y,omitempty"`
	W    int           `json:"w,omitempty"`
	H    int           `json:"h,omitempty"`
	R    rune          `json:"r,omitempty"`
	Comb []rune        `json:"comb,omitempty"`
	St   tcell.Style   `json:"-"`
	StJ  []interface{} `json:"st,omitempty"`
	B    bool          `json:"b,omitempty"`
	N    int           `json:"n,omitempty"`
	S    string        `json:"s,omitempty"`
	Col  tcell.Color   `json:"-"`
	ColJ []int         `json:"col,omitempty"`
}

// ecmaFamily reports whether the entry addresses the cursor with CSI sequences.
func ecmaFamily(ti *terminfo.Terminfo) bool {
	return strings.HasPrefix(ti.SetCursor, "\x1b[")
}

// tiJSON encodes every field of a Terminfo: strings as byte arrays.
func tiJSON(ti *terminfo.Terminfo) map[string]interface{} {
	m := map[string]interface{}{}
	v := reflect.ValueOf(*ti)
	for i := 0; i < v.NumField(); i++ {
		f := v.Field(i)
		n := v.Type().Field(i).Name
		switch f.Kind() {
		case reflect.String:
			if strings.HasPrefix(n, "Key") {
				continue
			}
			m[n] = trace.Str(f.String())
		case reflect.Int:
			m[n] = int(f.Int())
		case reflect.Bool:
			m[n] = f.Bool()
		}
	}
	return m
}

var scrNarrow = []rune{'a', 'b', 'c', 'x', 'Z', '0', '9', '#', '%', '$', '<', '>', '[', ';', '~', '?', ' ',
	0xe9, 0xdf, 0x3b1, 0x416, 0x5d0, 0x2500, 0x2502, 0x250c, 0x2588, 0x20ac}
var scrWide = []rune{0x4e16, 0x754c, 0xac00, 0xff21, 0x3042, 0x1f600}
var scrZero = []rune{0, 7, 8, 0xa, 0xd, 0x1b, 0x7f, 0x85, 0x9b, 0x200b, 0x200d, 0x2060, 0xfeff, 0x202e, 0x2028, 0x301, -1, 0x110000, 0xd800}
var scrComb = [][]rune{nil, nil, nil, nil, {0x301}, {0x300, 0x302}, {0x20dd}, {0xfe0f}}

// legacyComb: combining lists for the legacy mix - marks no 8-bit set has, and Arabic harakat, which ISO 8859-6 has
var legacyComb = [][]rune{nil, nil, {0x301}, {0x64e}, {0x651, 0x64e}, {0x300, 0x302}, {0x650}, {0xfe0f}}

// legacyRunes: runes that single-byte and CJK locales do or do not have, line-drawing runes with
// ACS names, and a few with default fallbacks
var legacyRunes = []rune{0xe9, 0xdf, 0x3b1, 0x416, 0x5d0, 0x20ac, 0x2500, 0x2502, 0x250c, 0x2510, 0x2514, 0x2518, 0x251c, 0x2524,
	0x252c, 0x2534, 0x253c, 0x2192, 0x2190, 0x2191, 0x2193, 0x2588, 0x25c6, 0xb0, 0xb1, 0xa3, 0xb7, 0x3c0, 0x2260, 0x2264, 0x2265,
	0x23ba, 0x23bd, 0x4e16, 0x754c, 0xac00, 0x3042, 0xff21, 0x1f600, 0x2603, 0x401, 0x141}

// fallbackRunes: runes of tcell's stock RuneFallbacks table (arrows, blocks, line drawing, symbols)
var fallbackRunes = []rune{0x2192, 0x2190, 0x2191, 0x2193, 0x2588, 0x25c6, 0x2592, 0xb0, 0xb1, 0xb7, 0x2264, 0x2265, 0x3c0,
	0x2260, 0xa3, 0x2500, 0x2502, 0x250c, 0x253c, 0x23ba, 0x23bd, 0x2022, 0x2591}

var pickLegacy bool

func pickRune(rng *rand.Rand) rune {
	if pickLegacy && rng.Intn(2) == 0 {
		return legacyRunes[rng.Intn(len(legacyRunes))]
	}
	switch k := rng.Intn(20); {
	case k < 12:
		return scrNarrow[rng.Intn(len(scrNarrow))]
	case k < 17:
		return scrWide[rng.Intn(len(scrWide))]
	default:
		return scrZero[rng.Intn(len(scrZero))]
	}
}

var errHang = fmt.Errorf("a screen call did not return")

type screenRun struct {
	tw      *trace.Writer
	rng     *rand.Rand
	term    string
	ti      terminfo.Terminfo
	tty     *faketty.Tty
	s       tcell.Screen
	w, h    int
	mix     string
	rich    bool
	charset string
	stats   *screenStats
}

type screenStats struct {
	hists, ops, shows, bytes int
	sigs                     map[string]bool
	samples                  []string
}

// plan builds a random history.
// stockFallbacks: the table every new screen starts from, read once before any screen exists - what one screen
// registers or removes is its own business and must not show on the next
var stockFallbacks = func() []interface{} {
	out := []interface{}{}
	for k, v := range tcell.RuneFallbacks {
		out = append(out, []interface{}{int(k), trace.Str(v)})
	}
	return out
}()

// fbCarry: runes whose fallback an earlier history (an earlier screen of this process) changed
var fbCarry []rune

func planScreen(rng *rand.Rand, nops int, w, h int, mix string, rich bool, hasCallbackAlways bool) []sop {
	var ops []sop
	cw, ch := w, h // size tcell will believe at the next Show
	running := true
	add := func(o sop) { ops = append(ops, o) }
	setc := func() sop {
		x, y := rng.Intn(cw+2)-1, rng.Intn(ch+2)-1
		if rng.Intn(6) == 0 { // bias to the last columns / bottom-right corner
			x = cw - 1 - rng.Intn(3)
			if rng.Intn(2) == 0 {
				y = ch - 1
			}
		}
		comb := scrComb[rng.Intn(len(scrComb))]
		if mix == "legacy" {
			comb = legacyComb[rng.Intn(len(legacyComb))]
		}
		r := pickRune(rng)
		if mix == "legacy" && len(comb) > 0 && comb[0] >= 0x600 && rng.Intn(2) == 0 {
			r = []rune{0x643, 0x628, 0x62a}[rng.Intn(3)] // an Arabic letter under the harakat
		}
		return sop{Op: "SetContent", X: x, Y: y, R: r, Comb: comb,
			St: tcx.RandStyle(rng, rich, true)}
	}
	var last []sop
	if mix == "legacy" && len(fbCarry) > 0 {
		// a fresh screen: the fallbacks another screen registered or removed are not its own
		for k := 0; k < 2 && k < len(fbCarry); k++ {
			rr := fbCarry[len(fbCarry)-1-k]
			add(sop{Op: "SetContent", X: rng.Intn(cw), Y: rng.Intn(ch), R: rr, St: tcx.RandStyle(rng, rich, true)})
			add(sop{Op: "CanDisplay", R: rr, B: true})
		}
		add(sop{Op: "Show"})
	}
	if mix != "legacy" && rng.Intn(3) == 0 {
		// frames over cells that were never given any content: the first paints them, the second has nothing to do
		add(sop{Op: "Show"})
		add(sop{Op: "Show"})
	}
	for i := 0; i < nops; i++ {
		k := rng.Intn(100)
		if mix == "legacy" && running && k >= 92 {
			rr := legacyRunes[rng.Intn(len(legacyRunes))]
			switch rng.Intn(3) {
			case 0:
				// a changed fallback shows at the next draw of a cell: force one for every cell
				// and the rune is put on the screen and asked about, so that the change is observed
				if rng.Intn(2) == 0 {
					rr = fallbackRunes[rng.Intn(len(fallbackRunes))]
				}
				subst := []string{"-", "+", "#", "o"}[rng.Intn(4)]
				if runes.ClassScreen(rr) == 2 { // documented: the string is as wide as the rune
					subst = []string{"[]", "<>", "##", "WW"}[rng.Intn(4)]
				}
				if rng.Intn(2) == 0 { // the rune has been on the display before its fallback changes
					add(sop{Op: "SetContent", X: rng.Intn(cw), Y: rng.Intn(ch), R: rr, St: tcx.RandStyle(rng, rich, true)})
					add(sop{Op: "Show"})
				}
				add(sop{Op: "Fallback", R: rr, B: rng.Intn(2) != 0, S: subst})
				fbCarry = append(fbCarry, rr)
				add(sop{Op: "SetContent", X: rng.Intn(cw), Y: rng.Intn(ch), R: rr, St: tcx.RandStyle(rng, rich, true)})
				add(sop{Op: "Sync"})
				add(sop{Op: "CanDisplay", R: rr, B: true})
				add(sop{Op: "CanDisplay", R: rr, B: false})
			default:
				add(sop{Op: "CanDisplay", R: rr, B: rng.Intn(2) == 0})
			}
			continue
		}
		if !running {
			// while suspended only a few calls make sense
			switch {
			case k < 40:
				add(sop{Op: "Resume"})
				running = true
			case k < 60:
				add(setc())
			case k < 70:
				add(sop{Op: "SetTitle", S: []string{"t1", "hello world", ""}[rng.Intn(3)]})
			case k < 80:
				add(sop{Op: "EnableMouse", N: 1 + rng.Intn(8), X: rng.Intn(2)})
			case k < 83:
				add(sop{Op: "EnablePaste"})
			case k < 90 && mix == "modes":
				// the other mode calls while suspended: they take effect at Resume
				switch rng.Intn(7) {
				case 0:
					add(sop{Op: "DisableMouse"})
				case 1:
					add(sop{Op: "DisablePaste"})
				case 2:
					add(sop{Op: "EnableFocus"})
				case 3:
					add(sop{Op: "DisableFocus"})
				case 4:
					add(sop{Op: "SetCursorStyle", N: rng.Intn(7), Col: tcell.PaletteColor(rng.Intn(8))})
				case 5:
					add(sop{Op: "HideCursor"})
				default:
					add(sop{Op: "Suspend"})
				}
			case k < 90:
				add(sop{Op: "Suspend"})
			default:
				add(sop{Op: "ShowCursor", X: rng.Intn(cw), Y: rng.Intn(ch)})
			}
			continue
		}
		switch {
		case k < 45 && rich && rng.Intn(40) == 0:
			// adjacent cells whose styles differ in exactly one component, painted in one frame
			y, x0 := rng.Intn(ch), 0
			for i, st := range tcx.StyleVariants(rng, cw) {
				add(sop{Op: "SetContent", X: x0 + i, Y: y, R: 'u', St: st})
			}
			add(sop{Op: "Show"})
		case k < 45 && len(last) > 0 && mix != "legacy" && rng.Intn(40) == 0:
			// (UTF-8 only: in a legacy locale a fallback change shows when a cell is next drawn, and cells already on
			// the display keep their old substitute until then - the legacy mix follows every change by a Sync)
			// a fallback registered or removed for a rune that is on the screen: in a UTF-8 locale nothing changes,
			// and nothing may be repainted for it
			o := last[rng.Intn(len(last))]
			add(sop{Op: "Show"})
			add(sop{Op: "Fallback", R: o.R, B: rng.Intn(2) == 0, S: "?"})
			add(sop{Op: "Show"})
		case k < 45 && rng.Intn(40) == 0:
			// a region reaching past the right and bottom edges: the part of it on the screen is locked, and unlocked, all the same
			x, y := cw-1-rng.Intn(2), ch-1-rng.Intn(2)
			if x < 0 {
				x = 0
			}
			if y < 0 {
				y = 0
			}
			rw, rh := 3+rng.Intn(3), 1+rng.Intn(4)
			add(sop{Op: "SetContent", X: cw - 1, Y: y, R: 'k', St: tcx.RandStyle(rng, rich, true)})
			add(sop{Op: "Show"})
			add(sop{Op: "LockRegion", X: x, Y: y, W: rw, H: rh, B: true})
			add(sop{Op: "SetContent", X: cw - 1, Y: y, R: 'L', St: tcx.RandStyle(rng, rich, true)})
			add(sop{Op: "SetContent", X: x, Y: ch - 1, R: 'M', St: tcx.RandStyle(rng, rich, true)})
			add(sop{Op: "Show"})
			add(sop{Op: "LockRegion", X: x, Y: y, W: rw, H: rh, B: false})
			add(sop{Op: "Show"})
		case k < 45 && rng.Intn(40) == 0:
			// combining marks that change while everything else stays: (a) a cell whose primary rune has no width (shown as a
			// blank under the marks) gets other marks, as many as before; (b) a Fill with the rune and style of a cell takes
			// its marks away - either way the cell is repainted by the next frame
			x, y := rng.Intn(cw), rng.Intn(ch)
			st := tcx.RandStyle(rng, false, true)
			if rng.Intn(2) == 0 {
				r0 := []rune{0x200b, 0x7, 'a'}[rng.Intn(3)]
				add(sop{Op: "SetContent", X: x, Y: y, R: r0, Comb: []rune{0x301}, St: st})
				add(sop{Op: "Show"})
				add(sop{Op: "SetContent", X: x, Y: y, R: r0, Comb: []rune{0x308}, St: st})
				add(sop{Op: "Show"})
			} else {
				add(sop{Op: "Fill", R: 'e', St: st})
				add(sop{Op: "SetContent", X: x, Y: y, R: 'e', Comb: []rune{0x301, 0x302}[:1+rng.Intn(2)], St: st})
				add(sop{Op: "Show"})
				add(sop{Op: "Fill", R: 'e', St: st})
				add(sop{Op: "Show"})
			}
		case k < 45 && cw >= 5 && rng.Intn(40) == 0:
			// bottom line: a wide rune, shown; another wide rune one column to its left (the first stays stored but
			// hidden); then the corner cell changes - whoever owns column w-2 must be found by walking the line
			y := ch - 1
			add(sop{Op: "SetContent", X: cw - 3, Y: y, R: scrWide[rng.Intn(len(scrWide))], St: tcx.RandStyle(rng, rich, true)})
			add(sop{Op: "Show"})
			add(sop{Op: "SetContent", X: cw - 4, Y: y, R: scrWide[rng.Intn(len(scrWide))], St: tcx.RandStyle(rng, rich, true)})
			if rng.Intn(2) == 0 {
				add(sop{Op: "Show"})
			}
			add(sop{Op: "SetContent", X: cw - 1, Y: y, R: []rune{'#', '|', 'x'}[rng.Intn(3)], St: tcx.RandStyle(rng, rich, true)})
			add(sop{Op: "Show"})
		case k < 45 && cw >= 2 && rng.Intn(40) == 0:
			// a wide rune over cells painted before, then the same Fill/Clear again: the column it covered
			// holds what it held before, and must be shown again
			base := sop{Op: "Clear"}
			if rng.Intn(2) == 0 {
				base = sop{Op: "Fill", R: []rune{'x', '.', ' '}[rng.Intn(3)], St: tcx.RandStyle(rng, false, true)}
			}
			add(base)
			add(sop{Op: "Show"})
			add(sop{Op: "SetContent", X: rng.Intn(cw - 1), Y: rng.Intn(ch), R: scrWide[rng.Intn(len(scrWide))], St: tcx.RandStyle(rng, rich, true)})
			add(sop{Op: "Show"})
			add(base)
			add(sop{Op: "Show"})
		case k < 45:
			o := setc()
			add(o)
			last = append(last, o)
			if len(last) > 8 {
				last = last[1:]
			}
		case k < 48 && len(last) > 0: // re-store identical content (C13)
			o := last[rng.Intn(len(last))]
			add(o)
			if rng.Intn(2) == 0 { // ... with a frame before and after, so that the second store is the only thing between them
				add(sop{Op: "Show"})
				add(o)
				add(sop{Op: "Show"})
			}
		case k < 50: // read a cell back and store what was read (an unchanged cell, whatever wrote it)
			add(sop{Op: "Restore", X: rng.Intn(cw), Y: rng.Intn(ch)})
		case k < 65:
			add(sop{Op: "Show"})
		case k < 68:
			add(sop{Op: "Sync"})
		case k < 70:
			add(sop{Op: "Fill", R: []rune{' ', 'x', '.', 0x2592, 0, 0x7f, 0x200b, 0x1b}[rng.Intn(8)], St: tcx.RandStyle(rng, false, true)})
		case k < 72:
			add(sop{Op: "Clear"})
		case k < 74:
			add(sop{Op: "SetStyle", St: tcx.RandStyle(rng, rich, false)})
		case k < 79:
			cx, cy := rng.Intn(cw+2)-1, rng.Intn(ch+2)-1
			if rng.Intn(4) == 0 { // further off the screen, on one side or both
				cx = []int{-5, -2, -1, cw + 3, rng.Intn(cw)}[rng.Intn(5)]
				cy = []int{-7, -2, -1, ch + 2, rng.Intn(ch)}[rng.Intn(5)]
			}
			add(sop{Op: "ShowCursor", X: cx, Y: cy})
		case k < 80:
			add(sop{Op: "HideCursor"})
		case k < 82:
			o := sop{Op: "SetCursorStyle", N: rng.Intn(7)}
			switch rng.Intn(4) {
			case 0:
				o.Col = tcell.ColorReset
			case 1:
				o.Col = tcell.NewRGBColor(int32(rng.Intn(256)), int32(rng.Intn(256)), int32(rng.Intn(256)))
			case 2:
				o.Col = tcell.PaletteColor(rng.Intn(16))
			default:
				o.B = true // no colour argument
			}
			add(o)
		case k < 86:
			add(sop{Op: "LockRegion", X: rng.Intn(cw+1) - 1, Y: rng.Intn(ch+1) - 1, W: 1 + rng.Intn(3), H: 1 + rng.Intn(2), B: rng.Intn(2) == 0})
		case k < 89:
			nw, nh := 1+rng.Intn(10), 1+rng.Intn(5)
			if rng.Intn(3) == 0 {
				nw, nh = cw, ch
			}
			add(sop{Op: "WinSize", W: nw, H: nh, B: rng.Intn(2) == 0})
			if (nw > cw || nh > ch) && rng.Intn(2) == 0 { // cells added by the grow, never written: two frames
				add(sop{Op: "Show"})
				add(sop{Op: "Show"})
			}
			cw, ch = nw, nh
		case k < 90:
			add(sop{Op: "Corrupt", X: rng.Intn(cw), Y: rng.Intn(ch), N: rng.Intn(1 << 16)})
		default:
			if mix != "modes" && k < 97 {
				add(setc())
				continue
			}
			switch rng.Intn(17) {
			case 16:
				// a cursor shape is shown, then the default shape is asked for but never shown before the screen is
				// suspended: the terminal still has the shape that was sent, and the exit must reset it
				add(sop{Op: "ShowCursor", X: rng.Intn(cw), Y: rng.Intn(ch)})
				add(sop{Op: "SetCursorStyle", N: 1 + rng.Intn(6), B: true})
				add(sop{Op: "Show"})
				add(sop{Op: "SetCursorStyle", N: 0, B: true})
				add(sop{Op: "Suspend"})
				running = false
			case 15:
				add(sop{Op: "Resume"}) // not suspended: nothing may happen
			case 14:
				// a cursor colour is set and shown, then only the shape changes: the terminal still holds the colour
				add(sop{Op: "ShowCursor", X: rng.Intn(cw), Y: rng.Intn(ch)})
				add(sop{Op: "SetCursorStyle", N: rng.Intn(7), Col: []tcell.Color{tcell.NewRGBColor(200, 10, 30), tcell.PaletteColor(3)}[rng.Intn(2)]})
				add(sop{Op: "Show"})
				add(sop{Op: "SetCursorStyle", N: rng.Intn(7), B: true})
				add(sop{Op: "Show"})
			case 0:
				add(sop{Op: "EnableMouse", N: rng.Intn(9), X: rng.Intn(2)})
			case 1:
				add(sop{Op: "DisableMouse"})
			case 2:
				add(sop{Op: "EnablePaste"})
			case 3:
				add(sop{Op: "DisablePaste"})
			case 4:
				add(sop{Op: "EnableFocus"})
			case 5:
				add(sop{Op: "DisableFocus"})
			case 6:
				add(sop{Op: "SetTitle", S: []string{"t1", "hello world", "x;y", ""}[rng.Intn(4)]})
			case 7:
				add(sop{Op: "Beep"})
			case 8:
				add(sop{Op: "SetClipboard", S: "clip"})
			case 9:
				add(sop{Op: "GetClipboard"})
			case 10, 11:
				add(sop{Op: "Suspend"})
				running = false
			default:
				add(sop{Op: "SetSize", W: 1 + rng.Intn(10), H: 1 + rng.Intn(5)})
			}
		}
	}
	if !running {
		// already suspended: the history ends there, or the application exits from the suspended state
		if mix == "modes" && rng.Intn(2) == 0 {
			add(sop{Op: "Fini"})
		}
	} else if rng.Intn(3) == 0 {
		add(sop{Op: "Suspend"})
	} else {
		add(sop{Op: "Show"})
		add(sop{Op: "Fini"})
	}
	return ops
}

func collectRunes(ops []sop) (wide, zero []int) {
	ws, zs := map[int]bool{}, map[int]bool{}
	note := func(r rune) {
		switch runes.ClassScreen(r) {
		case 2:
			ws[int(r)] = true
		case 0:
			if r >= 0 && r <= 0x10ffff {
				zs[int(r)] = true
			}
		}
	}
	for _, o := range ops {
		if o.Op == "SetContent" || o.Op == "Fill" {
			note(o.R)
			for _, c := range o.Comb {
				note(c)
			}
		}
	}
	wide, zero = []int{}, []int{}
	for k := range ws {
		wide = append(wide, k)
	}
	for k := range zs {
		zero = append(zero, k)
	}
	sort.Ints(wide)
	sort.Ints(zero)
	return
}

// nearTable lists, for every colour a history may send to a palette, the acceptable
// palette indices (CIE76 nearest, ties included) computed by the harness's own code.
func nearTable(ops []sop, ncolors int) (map[string][]int, map[string]int) {
	near := map[string][]int{}
	bw := map[string]int{}
	n := ncolors
	if n > 256 {
		n = 256
	}
	pal := make([]int, n)
	for i := range pal {
		pal[i] = lab.XtermRGB(i)
	}
	addc := func(c tcell.Color) {
		kv := tcx.Color(c)
		if kv[0] != 1 && kv[0] != 2 {
			return
		}
		key := fmt.Sprintf("c%d_%d", kv[0], kv[1])
		rgb := kv[1]
		if kv[0] == 1 {
			if kv[1] > 255 {
				return
			}
			rgb = lab.XtermRGB(kv[1])
		}
		if n > 0 {
			near[key] = lab.Nearest(rgb, pal, 3e-2)
		} else {
			// monochrome: 0 = nearer to black, 1 = nearer to white, 2 = tie
			db, dw := lab.Dist(rgb, 0), lab.Dist(rgb, 0xffffff)
			switch {
			case db < dw-1e-6:
				bw[key] = 0
			case dw < db-1e-6:
				bw[key] = 1
			default:
				bw[key] = 2
			}
		}
	}
	for _, o := range ops {
		if o.Op == "SetContent" || o.Op == "Fill" || o.Op == "SetStyle" {
			fg, bg, _ := o.St.Decompose()
			addc(fg)
			addc(bg)
			uc := tcx.Style(o.St)[4].([]int)
			if uc[0] == 1 {
				addc(tcell.PaletteColor(uc[1]))
			} else if uc[0] == 2 {
				addc(tcell.NewHexColor(int32(uc[1])))
			}
		}
	}
	return near, bw
}

func (r *screenRun) blocks(mark int) ([]interface{}, []string) {
	calls := r.tty.Since(mark)
	out := []interface{}{}
	names := []string{}
	for _, c := range calls {
		names = append(names, c.Name)
		if c.Name == "Write" {
			out = append(out, trace.Ints(c.Data))
			r.stats.bytes += len(c.Data)
		}
	}
	return out, names
}

func (r *screenRun) emit(e trace.Ev, mark int) {
	out, names := r.blocks(mark)
	e["out"] = out
	e["tty"] = names
	r.tw.Emit(e)
}

// waitRedraw waits for the asynchronous resize redraw: at least one more Write, then a
// Size() call as a barrier (Size takes the screen lock, which draw holds).
func (r *screenRun) waitRedraw(before int) bool {
	done := make(chan struct{})
	tm := time.AfterFunc(5*time.Second, func() { close(done) })
	ok := r.tty.WaitWrites(before+1, done)
	tm.Stop()
	if ok {
		r.s.Size()
	}
	return ok
}

var padRe = regexp.MustCompile(`\$<[0-9.]+[*/]*>`)

// stripPadding removes the delay specifications from every string capability of the copy.
func stripPadding(ti *terminfo.Terminfo) {
	v := reflect.ValueOf(ti).Elem()
	for i := 0; i < v.NumField(); i++ {
		if f := v.Field(i); f.Kind() == reflect.String && f.CanSet() {
			f.SetString(padRe.ReplaceAllString(f.String(), ""))
		}
	}
}

func (r *screenRun) run(ops []sop, w, h int, truecolor bool, altscreen bool) error {
	r.stats.hists++
	ti := r.ti // private copy: building a screen edits the entry it is given
	wide, zero := collectRunes(ops)
	near, bw := nearTable(ops, ti.Colors)
	if altscreen {
		os.Unsetenv("TCELL_ALTSCREEN")
	} else {
		os.Setenv("TCELL_ALTSCREEN", "disable")
	}
	r.tty = faketty.New(w, h)
	r.tw.Emit(trace.Ev{"ev": "Reset"})
	fb0 := stockFallbacks // documented: registered implicitly on every screen
	cfg := trace.Ev{"ev": "Config", "term": r.term, "W": w, "H": h, "cs": "utf8", "wide": wide, "zero": zero,
		"ti": tiJSON(&ti), "near": near, "bw": bw, "truecolor": truecolor, "altscreen": altscreen,
		"xtermlike": ti.XTermLike || strings.HasPrefix(ti.Name, "xterm"), "dec": []interface{}{}, "fb0": fb0, "charset": "UTF-8"}
	if r.charset != "" && r.charset != "UTF-8" {
		// legacy locale: the terminal decodes bytes with the table of the characters in use,
		// produced by an independent encoder instance of that charset
		enc := tcell.GetEncoding(r.charset)
		if enc == nil {
			return fmt.Errorf("charset %s is not registered", r.charset)
		}
		dec := []interface{}{}
		seen := map[rune]bool{}
		note := func(c rune) {
			if c < 0x80 || c > 0x10ffff || seen[c] {
				return
			}
			seen[c] = true
			b, err := enc.NewEncoder().Bytes([]byte(string(c)))
			if err == nil && len(b) > 0 && b[0] != 0x1a && b[0] >= 0x80 {
				dec = append(dec, []interface{}{trace.Ints(b), int(c)})
			}
		}
		for _, o := range ops {
			note(o.R)
			for _, c := range o.Comb {
				note(c)
			}
		}
		cfg["cs"], cfg["dec"], cfg["charset"] = "mb", dec, r.charset
	}
	r.tw.Emit(cfg)
	s, err := tcell.NewTerminfoScreenFromTtyTerminfo(r.tty, &ti)
	if err != nil {
		return err
	}
	r.s = s
	mark := r.tty.Mark()
	if err := s.Init(); err != nil {
		return err
	}
	sw, sh := s.Size()
	r.emit(trace.Ev{"ev": "Init", "sw": sw, "sh": sh}, mark)
	var sig strings.Builder
	for _, o := range ops {
		r.stats.ops++
		fmt.Fprintf(&sig, "%s(%d,%d,%d) ", o.Op, o.X, o.Y, o.R)
		mark = r.tty.Mark()
		e := trace.Ev{"ev": o.Op}
		if os.Getenv("VH_DEBUG") != "" {
			fmt.Fprintf(os.Stderr, "%s %s x=%d y=%d w=%d h=%d r=%d b=%v\n", r.term, o.Op, o.X, o.Y, o.W, o.H, o.R, o.B)
		}
		switch o.Op {
		case "SetContent":
			mine := append([]rune(nil), o.Comb...)
			if len(mine) == 0 && (o.X+o.Y)%2 == 1 {
				mine = []rune{} // "no combining runes" as an empty slice instead of nil: the same content
			}
			switch (o.X*7 + o.Y*3 + int(o.R) + len(o.Comb)) % 6 { // a fifth of the stores go through the older SetCell
			case 0:
				if o.R == ' ' && len(mine) == 0 && (o.X+o.Y)%2 == 0 {
					s.SetCell(o.X, o.Y, o.St) // documented: no runes at all is a blank
				} else {
					s.SetCell(o.X, o.Y, o.St, append([]rune{o.R}, mine...)...)
				}
			default:
				s.SetContent(o.X, o.Y, o.R, mine, o.St)
			}
			for i := range mine {
				mine[i] = 'X'
			}
			e["x"], e["y"], e["cp"], e["wc"], e["comb"], e["st"] = o.X, o.Y, int(o.R), runes.ClassScreen(o.R), trace.Runes(o.Comb), tcx.Style(o.St)
		case "Restore":
			rr, cc, st, _ := s.GetContent(o.X, o.Y)
			s.SetContent(o.X, o.Y, rr, cc, st)
			e["ev"] = "SetContent"
			e["x"], e["y"], e["cp"], e["wc"], e["comb"], e["st"] = o.X, o.Y, int(rr), runes.ClassScreen(rr), trace.Runes(cc), tcx.Style(st)
		case "Fill":
			s.Fill(o.R, o.St)
			e["cp"], e["wc"], e["st"] = int(o.R), runes.ClassScreen(o.R), tcx.Style(o.St)
		case "Clear":
			s.Clear()
		case "SetStyle":
			s.SetStyle(o.St)
			e["st"] = tcx.Style(o.St)
		case "ShowCursor":
			s.ShowCursor(o.X, o.Y)
			e["x"], e["y"] = o.X, o.Y
		case "HideCursor":
			s.HideCursor()
		case "SetCursorStyle":
			if o.B {
				s.SetCursorStyle(tcell.CursorStyle(o.N))
				e["col"] = tcx.Color(tcell.ColorNone)
			} else {
				s.SetCursorStyle(tcell.CursorStyle(o.N), o.Col)
				e["col"] = tcx.Color(o.Col)
			}
			e["n"] = o.N
			e["rgb"] = 0
			if kv := tcx.Color(o.Col); !o.B && kv[0] == 2 {
				e["rgb"] = kv[1]
			} else if !o.B && kv[0] == 1 {
				e["rgb"] = lab.XtermRGB(kv[1])
			}
		case "LockRegion":
			s.LockRegion(o.X, o.Y, o.W, o.H, o.B)
			e["x"], e["y"], e["w"], e["h"], e["lock"] = o.X, o.Y, o.W, o.H, o.B
		case "Show", "Sync":
			// a draw that never returns is reported as an event, not as a stuck harness
			done := make(chan struct{})
			go func() {
				if o.Op == "Show" {
					s.Show()
				} else {
					s.Sync()
				}
				close(done)
			}()
			select {
			case <-done:
			case <-time.After(10 * time.Second):
				e["ev"] = "Hang"
				e["call"] = o.Op
				r.emit(e, mark)
				return errHang
			}
			r.stats.shows++
		case "WinSize":
			before := r.tty.Writes()
			fired := r.tty.SetSize(o.W, o.H, o.B)
			e["w"], e["h"], e["notify"] = o.W, o.H, fired
			e["out"], e["tty"] = []interface{}{}, []string{}
			r.tw.Emit(e)
			if fired {
				ok := r.waitRedraw(before)
				sw, sh = s.Size()
				r.emit(trace.Ev{"ev": "Redraw", "arrived": ok, "sw": sw, "sh": sh}, mark)
			}
			continue
		case "Corrupt":
			e["x"], e["y"], e["n"] = o.X, o.Y, o.N
		case "EnableMouse":
			if o.N >= 8 { // the no-argument form enables everything
				s.EnableMouse()
				e["n"] = 7
			} else if o.N&(o.N-1) != 0 && (o.X+o.Y+o.N)%2 == 0 {
				// several flags: as separate arguments (the variadic form), which are OR-ed
				var fl []tcell.MouseFlags
				for b := 1; b <= 4; b <<= 1 {
					if o.N&b != 0 {
						fl = append(fl, tcell.MouseFlags(b))
					}
				}
				s.EnableMouse(fl...)
				e["n"] = o.N
			} else {
				s.EnableMouse(tcell.MouseFlags(o.N))
				e["n"] = o.N
			}
		case "DisableMouse":
			s.DisableMouse()
		case "EnablePaste":
			s.EnablePaste()
		case "DisablePaste":
			s.DisablePaste()
		case "EnableFocus":
			s.EnableFocus()
		case "DisableFocus":
			s.DisableFocus()
		case "SetTitle":
			s.SetTitle(o.S)
			e["s"] = trace.Str(o.S)
		case "Beep":
			s.Beep()
		case "SetClipboard":
			s.SetClipboard([]byte(o.S))
			e["s"] = trace.Str(o.S)
		case "GetClipboard":
			s.GetClipboard()
		case "SetSize":
			s.SetSize(o.W, o.H)
			e["w"], e["h"] = o.W, o.H
		case "Fallback":
			if o.B {
				s.RegisterRuneFallback(o.R, o.S)
			} else {
				s.UnregisterRuneFallback(o.R)
			}
			e["r"], e["on"], e["subst"] = int(o.R), o.B, trace.Str(o.S)
		case "CanDisplay":
			e["r"], e["fb"] = int(o.R), o.B
			e["res"] = s.CanDisplay(o.R, o.B)
		case "Suspend":
			s.Suspend()
		case "Resume":
			e["err"] = s.Resume() != nil
		case "Fini":
			s.Fini()
		default:
			return fmt.Errorf("unknown op %s", o.Op)
		}
		sw, sh = s.Size()
		e["sw"], e["sh"] = sw, sh
		r.emit(e, mark)
	}
	// make sure nothing is left running
	if len(ops) == 0 || ops[len(ops)-1].Op != "Fini" {
		mark = r.tty.Mark()
		s.Fini()
		r.emit(trace.Ev{"ev": "Fini", "sw": 0, "sh": 0, "cleanup": true}, mark)
	}
	if r.stats.sigs != nil {
		k := r.term + ":" + sig.String()
		if !r.stats.sigs[k] {
			r.stats.sigs[k] = true
			if len(r.stats.samples) < 3 && len(k) < 1500 {
				r.stats.samples = append(r.stats.samples, k)
			}
		}
	}
	return nil
}

// screenTerms lists the names to drive: every registered name of an ECMA-48-family entry.
func screenTerms(filter string) []string {
	var names []string
	for _, n := range terminfo.VerifNames() {
		ti := terminfo.VerifEntry(n)
		if !ecmaFamily(ti) {
			continue
		}
		if filter != "" && !strings.Contains(","+filter+",", ","+n+",") {
			continue
		}
		names = append(names, n)
	}
	return names
}

// withTrueColor returns a copy of the entry with the ISO 8613-6 direct colour strings,
// which is what a lookup under COLORTERM=truecolor is documented to synthesize.
func withTrueColor(ti terminfo.Terminfo) terminfo.Terminfo {
	if ti.SetFgRGB == "" && ti.SetBgRGB == "" && ti.SetFgBgRGB == "" {
		ti.SetFgRGB = "\x1b[38;2;%p1%d;%p2%d;%p3%dm"
		ti.SetBgRGB = "\x1b[48;2;%p1%d;%p2%d;%p3%dm"
		ti.SetFgBgRGB = "\x1b[38;2;%p1%d;%p2%d;%p3%d;48;2;%p4%d;%p5%d;%p6%dm"
	}
	return ti
}

// sweepPlans builds the code-point sweep (C09): every selected code point as primary content through
// SetContent - in even columns and, for runes that must be blanked, also in the last column - 512 per
// Show on a 64x16 screen, and every rune that must be blanked through Fill on an 8x3 screen.
func sweepPlans(full, legacy bool) [][]sop {
	var cps []rune
	var forbidden []rune
	step := rune(257)
	if full {
		step = 1
	}
	for r := rune(0); r <= 0x10ffff; r++ {
		c := runes.ClassScreen(r)
		if c == 0 {
			if full || r < 0x3000 || r%7 == 0 || (r >= 0xd800 && r < 0xd810) || r > 0xe0000 {
				forbidden = append(forbidden, r)
			}
			continue
		}
		if c == -1 || legacy {
			continue // no agreed width / legacy locales are swept for the forbidden classes only
		}
		if r%step == 0 || r < 0x250 {
			cps = append(cps, r)
		}
	}
	forbidden = append(forbidden, -1, -77, 0x110000, 0x7fffffff)
	st := tcell.StyleDefault
	var plans [][]sop
	all := append(append([]rune{}, forbidden...), cps...)
	// 32x4 screens, 15 code points per row (even columns), several Shows per history
	for i := 0; i < len(all); i += 600 {
		var ops []sop
		for j := i; j < i+600 && j < len(all); j += 60 {
			ops = append(ops, sop{Op: "Clear"})
			for k := 0; k < 60 && j+k < len(all); k++ {
				r := all[j+k]
				x, y := (k%15)*2, k/15
				if runes.ClassScreen(r) == 0 && k%15 == 14 {
					x = 31 // the last column
				}
				ops = append(ops, sop{Op: "SetContent", X: x, Y: y, R: r, St: st})
			}
			ops = append(ops, sop{Op: "Show"})
			if j < len(forbidden) {
				// the window grows and shrinks back: the cells are carried over into a new buffer and everything is
				// repainted - runes that must be blanked still are
				ops = append(ops, sop{Op: "WinSize", W: 33, H: 5, B: true}, sop{Op: "WinSize", W: 32, H: 4, B: true})
			}
		}
		ops = append(ops, sop{Op: "Fini"})
		plans = append(plans, ops)
	}
	for i := 0; i < len(forbidden); i += 40 {
		var ops []sop
		for k := 0; k < 40 && i+k < len(forbidden); k++ {
			ops = append(ops, sop{Op: "Fill", R: forbidden[i+k], St: st}, sop{Op: "Show"})
		}
		ops = append(ops, sop{Op: "Fini"})
		plans = append(plans, ops)
	}
	return plans
}

func screenMain(args []string) error {
	fs := flag.NewFlagSet("screen", flag.ExitOnError)
	out := fs.String("out", "trace.ndjson", "trace file")
	seed := fs.Int64("seed", 1, "seed")
	n := fs.Int("random", 1, "random histories per terminal")
	nops := fs.Int("ops", 30, "operations per history")
	terms := fs.String("terms", "", "comma separated terminal names (default: all ECMA-48-family entries)")
	mix := fs.String("mix", "draw", "draw | modes")
	beh := fs.String("behaviours", "", "TLC-generated histories (JSON arrays of ops), run on each terminal in -terms")
	behEvery := fs.Int("behevery", 1, "replay every n-th generated history only")
	big := fs.Int("big", 0, "every big-th history uses a large screen (0: never)")
	charset := fs.String("charset", "UTF-8", "locale character set")
	nopad := fs.Bool("nopad", false, "strip $<..> padding from the entry (padding is C15's subject; avoids real sleeps in long replays)")
	localeVia := fs.String("localevia", "LC_ALL", "which variable names the locale: LC_ALL | LC_CTYPE | LANG (the others name a different charset)")
	sweep := fs.String("sweep", "", "code-point sweep instead of random histories: quick | full")
	fs.Parse(args)
	encoding.Register()

	os.Unsetenv("LC_CTYPE")
	os.Unsetenv("LANG")
	if *charset != "UTF-8" {
		pickLegacy = true
	}
	// POSIX: LC_ALL wins, then LC_CTYPE, then LANG; the variables not used for the charset name another one
	other := "en_US.UTF-8"
	if *charset == "UTF-8" {
		other = "ru_RU.KOI8-R"
	}
	switch *localeVia {
	case "LC_CTYPE":
		os.Setenv("LC_ALL", "")
		os.Setenv("LC_CTYPE", "en_US."+*charset)
		os.Setenv("LANG", other)
	case "LANG":
		os.Setenv("LC_ALL", "")
		os.Setenv("LC_CTYPE", "")
		os.Setenv("LANG", "en_US."+*charset)
	default:
		os.Setenv("LC_ALL", "en_US."+*charset)
		os.Setenv("LC_CTYPE", other)
		os.Setenv("LANG", other)
	}
	os.Unsetenv("LINES")
	os.Unsetenv("COLUMNS")
	os.Unsetenv("TCELL_TRUECOLOR")
	os.Unsetenv("RUNEWIDTH_EASTASIAN")

	tw, err := trace.Create(*out)
	if err != nil {
		return err
	}
	stats := &screenStats{sigs: map[string]bool{}, samples: []string{}}
	rng := rand.New(rand.NewSource(*seed))
	names := screenTerms(*terms)
	if len(names) == 0 {
		return fmt.Errorf("no terminal selected")
	}
	var planned [][]sop
	nbeh := 0
	if *beh != "" {
		f, err := os.Open(*beh)
		if err != nil {
			return err
		}
		sc := bufio.NewScanner(f)
		sc.Buffer(make([]byte, 1<<20), 1<<26)
		for sc.Scan() {
			var hist []sop
			nbeh++
			if (nbeh+int(*seed))%*behEvery != 0 {
				continue
			}
			if err := json.Unmarshal(sc.Bytes(), &hist); err != nil {
				return err
			}
			for i := range hist {
				if hist[i].StJ != nil {
					hist[i].St = tcx.StyleFrom(hist[i].StJ)
				}
			}
			planned = append(planned, hist)
		}
		f.Close()
	}
	cnt := 0
	if *sweep != "" {
		for _, name := range names {
			base := *terminfo.VerifEntry(name)
			for k, ops := range sweepPlans(*sweep == "full", *charset != "UTF-8") {
				r := &screenRun{tw: tw, rng: rng, term: name, ti: base, stats: stats, mix: "draw", charset: *charset}
				w, h := 32, 4
				if len(ops) > 0 && ops[0].Op == "Fill" {
					w, h = 8, 3
				}
				if err := r.run(ops, w, h, false, k%2 == 0); err != nil {
					if err == errHang {
						goto finish
					}
					return fmt.Errorf("%s: %v", name, err)
				}
			}
		}
		names = nil // nothing else to run
	}
	for _, name := range names {
		base := *terminfo.VerifEntry(name)
		for i := 0; i < *n+len(planned); i++ {
			cnt++
			w, h := 1+rng.Intn(10), 1+rng.Intn(5)
			if *big > 0 && cnt%*big == 0 {
				w, h = []int{80, 132, 100}[rng.Intn(3)], []int{24, 50, 10}[rng.Intn(3)]
			}
			tc := rng.Intn(3) == 0
			ti := base
			if tc {
				ti = withTrueColor(ti)
			}
			if *nopad {
				stripPadding(&ti)
			}
			truecolor := ti.SetFgRGB != "" || ti.SetBgRGB != "" || ti.SetFgBgRGB != ""
			r := &screenRun{tw: tw, rng: rng, term: name, ti: ti, stats: stats, mix: *mix, rich: true, charset: *charset}
			var ops []sop
			if i < len(planned) {
				ops = planned[i]
				w, h = 3, 2
			} else {
				ops = planScreen(rng, *nops/2+rng.Intn(*nops), w, h, *mix, true, false)
			}
			if err := r.run(ops, w, h, truecolor, rng.Intn(4) != 0); err != nil {
				if err == errHang { // the wedged goroutine holds the screen lock: stop here, the log says why
					goto finish
				}
				return fmt.Errorf("%s: %v", name, err)
			}
		}
	}
finish:
	if err := tw.Close(); err != nil {
		return err
	}
	sum, _ := json.Marshal(map[string]interface{}{"histories": stats.hists, "events": tw.N, "ops": stats.ops,
		"shows": stats.shows, "bytes": stats.bytes, "distinct": len(stats.sigs), "samples": stats.samples, "terms": len(names)})
	fmt.Println(string(sum))
	return nil
}

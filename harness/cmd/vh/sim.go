package main

import (
	"bufio"
	"encoding/json"
	"flag"
	"fmt"
	"math/rand"
	"os"
	"time"

	"github.com/gdamore/tcell/v2"
	"github.com/gdamore/tcell/v2/encoding"

	"verifharness/runes"
	"verifharness/tcx"
	"verifharness/trace"
)

func init() {
	register("sim", "C18: drive a SimulationScreen, log reported cells, cursor and polled events", simMain)
}

type simRun struct {
	tw  *trace.Writer
	s   tcell.SimulationScreen
	cs  string
	ops int
}

func (r *simRun) cells() ([]interface{}, int, int) {
	cs, w, h := r.s.GetContents()
	out := make([]interface{}, 0, len(cs))
	for _, c := range cs {
		out = append(out, []interface{}{trace.Runes(c.Runes), trace.Ints(c.Bytes), tcx.Style(c.Style)})
	}
	return out, w, h
}

func (r *simRun) cursor() []interface{} {
	x, y, v := r.s.GetCursor()
	return []interface{}{x, y, v}
}

// drain polls every pending event (with a short grace period for nothing pending).
func (r *simRun) drain(afterShow bool) {
	evs := []interface{}{}
	drainPending(r.s, "sim", nil, func(ev tcell.Event) {
		if rz, ok := ev.(*tcell.EventResize); ok {
			w, h := rz.Size()
			evs = append(evs, []interface{}{"resize", w, h})
			return
		}
		evs = append(evs, evJSON(ev))
	})
	r.tw.Emit(trace.Ev{"ev": "Drain", "evs": evs, "aftershow": afterShow})
}

// op is one call on the simulator; planned histories (TLC behaviours of SimModel) come as JSON arrays of them
type op struct {
	kind    string
	x, y    int
	r       rune
	comb    []rune
	st      tcell.Style
	w, h    int
	on      bool
	subst   string
	text    []rune
	key     tcell.Key
	mod     tcell.ModMask
	buttons tcell.ButtonMask
}

type simOpJSON struct {
	Op string `json:"op"`
	X  int    `json:"x"`
	Y  int    `json:"y"`
	W  int    `json:"w"`
	H  int    `json:"h"`
	R  rune   `json:"r"`
}

func simHistory(tw *trace.Writer, rng *rand.Rand, cs string, nops int, encRunes []rune, planned []simOpJSON) (int, error) {
	s := tcell.NewSimulationScreen(cs)
	if err := s.Init(); err != nil {
		return 0, err
	}
	defer s.Fini()
	r := &simRun{tw: tw, s: s, cs: cs}
	// plan first: the Config event lists the encoding of every rune used
	w, h := 2+rng.Intn(6), 1+rng.Intn(3)
	var ops []op
	ops = append(ops, op{kind: "SetSize", w: w, h: h}, op{kind: "Show"})
	pick := func() rune {
		switch k := rng.Intn(10); {
		case k < 5:
			return []rune{'a', 'b', 'Z', '~', ' ', '%', 0xe9, 0x3b1, 0x416, 0x2500, 0x2192}[rng.Intn(11)]
		case k < 7 && len(encRunes) > 0:
			return encRunes[rng.Intn(len(encRunes))]
		case k < 9:
			return []rune{0x4e16, 0xac00, 0xff21, 0x3042}[rng.Intn(4)]
		default:
			return []rune{0, 7, 0x7f, 0x200b, 0x301}[rng.Intn(5)]
		}
	}
	for i := 0; i < nops; i++ {
		switch k := rng.Intn(20); {
		case k < 9:
			var comb []rune
			if rng.Intn(5) == 0 {
				comb = []rune{0x301}
			}
			ops = append(ops, op{kind: "SetContent", x: rng.Intn(w+2) - 1, y: rng.Intn(h+2) - 1, r: pick(), comb: comb, st: tcx.RandStyle(rng, true, true)})
		case k < 12:
			ops = append(ops, op{kind: "Show"})
		case k < 13:
			ops = append(ops, op{kind: "Sync"})
		case k < 14:
			ops = append(ops, op{kind: "Fill", r: []rune{' ', 'x', 0x3b1, 0}[rng.Intn(4)], st: tcx.RandStyle(rng, false, true)})
		case k < 15:
			ops = append(ops, op{kind: "SetStyle", st: tcx.RandStyle(rng, false, false)})
		case k < 16:
			if rng.Intn(3) == 0 {
				ops = append(ops, op{kind: "HideCursor"}, op{kind: "Show"})
			} else {
				ops = append(ops, op{kind: "ShowCursor", x: rng.Intn(w+2) - 1, y: rng.Intn(h+2) - 1})
			}
		case k < 17:
			w, h = 2+rng.Intn(6), 1+rng.Intn(3)
			ops = append(ops, op{kind: "SetSize", w: w, h: h}, op{kind: "Show"})
		case k < 18:
			rr := []rune{0x2192, 0x2500, 0x3b1, 0x4e16}[rng.Intn(4)]
			// a changed fallback shows at the next draw of a cell: force one for every cell
			ops = append(ops, op{kind: "Fallback", r: rr, on: rng.Intn(3) != 0, subst: []string{"-", ">", "??"}[rng.Intn(3)]}, op{kind: "Sync"})
		case k < 19 && len(encRunes) > 0:
			n := 1 + rng.Intn(5)
			var t []rune
			for j := 0; j < n; j++ {
				t = append(t, encRunes[rng.Intn(len(encRunes))])
			}
			ops = append(ops, op{kind: "InjectBytes", text: t})
		default:
			if rng.Intn(2) == 0 {
				ops = append(ops, op{kind: "InjectKey", key: []tcell.Key{tcell.KeyUp, tcell.KeyF5, tcell.KeyEnter, tcell.KeyRune}[rng.Intn(4)], r: 'q', mod: tcell.ModMask(rng.Intn(8))})
			} else {
				ops = append(ops, op{kind: "InjectMouse", x: rng.Intn(10), y: rng.Intn(5), buttons: tcell.ButtonMask(1 << uint(rng.Intn(3))), mod: tcell.ModMask(rng.Intn(4))})
			}
		}
	}
	ops = append(ops, op{kind: "Show"})
	if planned != nil {
		ops = []op{{kind: "SetSize", w: 3, h: 1}, {kind: "Show"}}
		for _, p := range planned {
			o := op{kind: p.Op, x: p.X, y: p.Y, w: p.W, h: p.H, r: p.R, st: tcell.StyleDefault}
			if p.Op == "InjectKey" {
				o.key = tcell.KeyRune
			}
			ops = append(ops, o)
		}
		ops = append(ops, op{kind: "Show"})
	}
	enc := tcell.GetEncoding(cs)
	encmap := map[string][]int{}
	note := func(r rune) {
		if r < 0 || r > 0x10ffff {
			return
		}
		b, err := enc.NewEncoder().Bytes([]byte(string(r)))
		if err == nil && len(b) > 0 && b[0] != 0x1a {
			encmap[fmt.Sprintf("r%d", r)] = trace.Ints(b)
		}
	}
	note(' ')
	for _, o := range ops {
		note(o.r)
		for _, c := range o.comb {
			note(c)
		}
		for _, c := range o.text {
			note(c)
		}
	}
	tw.Emit(trace.Ev{"ev": "Reset"})
	fb0 := stockFallbacks // documented: registered implicitly on every screen
	tw.Emit(trace.Ev{"ev": "Config", "cs": cs, "enc": encmap, "fb0": fb0})
	for _, o := range ops {
		r.ops++
		switch o.kind {
		case "SetContent":
			s.SetContent(o.x, o.y, o.r, o.comb, o.st)
			tw.Emit(trace.Ev{"ev": "SetContent", "x": o.x, "y": o.y, "cp": int(o.r), "wc": runes.ClassScreen(o.r), "comb": trace.Runes(o.comb), "st": tcx.Style(o.st)})
		case "Fill":
			s.Fill(o.r, o.st)
			tw.Emit(trace.Ev{"ev": "Fill", "cp": int(o.r), "wc": runes.ClassScreen(o.r), "st": tcx.Style(o.st)})
		case "SetStyle":
			s.SetStyle(o.st)
			tw.Emit(trace.Ev{"ev": "SetStyle", "st": tcx.Style(o.st)})
		case "Fallback":
			if o.on {
				s.RegisterRuneFallback(o.r, o.subst)
			} else {
				s.UnregisterRuneFallback(o.r)
			}
			tw.Emit(trace.Ev{"ev": "Fallback", "r": int(o.r), "on": o.on, "subst": trace.Str(o.subst)})
		case "ShowCursor":
			s.ShowCursor(o.x, o.y)
			tw.Emit(trace.Ev{"ev": "ShowCursor", "x": o.x, "y": o.y, "cursor": r.cursor()})
		case "HideCursor":
			s.HideCursor()
			tw.Emit(trace.Ev{"ev": "HideCursor", "cursor": r.cursor()})
		case "Show", "Sync":
			if o.kind == "Show" {
				s.Show()
			} else {
				s.Sync()
			}
			c, pw, ph := r.cells()
			tw.Emit(trace.Ev{"ev": o.kind, "cells": c, "pw": pw, "ph": ph, "cursor": r.cursor()})
			r.drain(true)
		case "Drain":
			r.drain(false)
		case "SetSize":
			s.SetSize(o.w, o.h)
			c, pw, ph := r.cells()
			tw.Emit(trace.Ev{"ev": "SetSize", "w": o.w, "h": o.h, "cells": c, "pw": pw, "ph": ph})
		case "InjectKey":
			s.InjectKey(o.key, o.r, o.mod)
			rr := 0
			if o.key == tcell.KeyRune {
				rr = int(o.r)
			} else {
				rr = int(o.r)
			}
			tw.Emit(trace.Ev{"ev": "Inject", "what": "key", "ok": true, "expect": []interface{}{[]interface{}{"key", int(o.key), rr, int(o.mod)}}})
			r.drain(false)
		case "InjectMouse":
			s.InjectMouse(o.x, o.y, o.buttons, o.mod)
			tw.Emit(trace.Ev{"ev": "Inject", "what": "mouse", "ok": true, "expect": []interface{}{[]interface{}{"mouse", o.x, o.y, int(o.buttons), int(o.mod)}}})
			r.drain(false)
		case "InjectBytes":
			b, err := enc.NewEncoder().Bytes([]byte(string(o.text)))
			if err != nil {
				continue
			}
			okc := make(chan bool, 1)
			go func() { okc <- s.InjectKeyBytes(b) }()
			ok := false
			select {
			case ok = <-okc:
			case <-time.After(3 * time.Second):
			}
			exp := []interface{}{}
			for _, c := range o.text {
				exp = append(exp, []interface{}{"key", int(tcell.KeyRune), int(c), 0})
			}
			tw.Emit(trace.Ev{"ev": "Inject", "what": "bytes", "ok": ok, "expect": exp, "bytes": trace.Ints(b)})
			r.drain(false)
		}
	}
	// a burst longer than the event queue, injected by a test goroutine that runs ahead of the reader: the injection
	// waits for room, nothing is dropped
	r.drain(false)
	burst := []byte("the quick brown fox jumps")
	okc := make(chan bool, 1)
	go func() { okc <- s.InjectKeyBytes(burst) }()
	time.Sleep(30 * time.Millisecond)
	evs := []interface{}{}
	evc := make(chan tcell.Event)
	stop := make(chan struct{})
	go func() {
		for {
			ev := s.PollEvent()
			if ev == nil {
				return
			}
			select {
			case evc <- ev:
			case <-stop:
				return
			}
		}
	}()
	deadline := time.After(3 * time.Second)
collect:
	for len(evs) < len(burst) {
		select {
		case ev := <-evc:
			if _, isKey := ev.(*tcell.EventKey); isKey {
				evs = append(evs, evJSON(ev))
			}
		case <-deadline:
			break collect
		}
	}
	ok := false
	select {
	case ok = <-okc:
	case <-time.After(time.Second):
	}
	close(stop)
	s.PostEvent(tcell.NewEventInterrupt(nil)) // lets the collector leave PollEvent
	exp := []interface{}{}
	for _, c := range burst {
		exp = append(exp, []interface{}{"key", int(tcell.KeyRune), int(c), 0})
	}
	tw.Emit(trace.Ev{"ev": "Inject", "what": "burst", "ok": ok, "expect": exp, "bytes": trace.Ints(burst)})
	tw.Emit(trace.Ev{"ev": "Drain", "evs": evs, "aftershow": false})
	return r.ops, nil
}

func simMain(args []string) error {
	fs := flag.NewFlagSet("sim", flag.ExitOnError)
	out := fs.String("out", "trace.ndjson", "trace file")
	seed := fs.Int64("seed", 1, "seed")
	n := fs.Int("random", 20, "histories per charset")
	nops := fs.Int("ops", 30, "operations per history")
	beh := fs.String("behaviours", "", "TLC-generated histories of SimModel (JSON arrays of ops), replayed on a UTF-8 and a legacy simulator")
	behEvery := fs.Int("behevery", 1, "replay every n-th generated history only")
	fs.Parse(args)
	encoding.Register()
	tw, err := trace.Create(*out)
	if err != nil {
		return err
	}
	rng := rand.New(rand.NewSource(*seed))
	hists, ops := 0, 0
	if *beh != "" {
		f, err := os.Open(*beh)
		if err != nil {
			return err
		}
		sc := bufio.NewScanner(f)
		sc.Buffer(make([]byte, 1<<20), 1<<26)
		nb := 0
		for sc.Scan() {
			nb++
			if (nb+int(*seed))%*behEvery != 0 {
				continue
			}
			var plan []simOpJSON
			if err := json.Unmarshal(sc.Bytes(), &plan); err != nil {
				return err
			}
			k, err := simHistory(tw, rng, []string{"UTF-8", "EUC-JP"}[nb%2], 0, nil, plan)
			if err != nil {
				return err
			}
			hists++
			ops += k
		}
		f.Close()
	}
	for _, cs := range statelessCharsets {
		enc := tcell.GetEncoding(cs)
		rs := encodable(cs, enc, 37)
		if len(rs) > 400 {
			rs = rs[:400]
		}
		for i := 0; i < *n; i++ {
			k, err := simHistory(tw, rng, cs, *nops/2+rng.Intn(*nops), rs, nil)
			if err != nil {
				return fmt.Errorf("%s: %v", cs, err)
			}
			hists++
			ops += k
		}
	}
	if err := tw.Close(); err != nil {
		return err
	}
	sum, _ := json.Marshal(map[string]interface{}{"histories": hists, "events": tw.N, "ops": ops, "distinct": hists, "charsets": len(statelessCharsets),
		"samples": []string{"SetSize(5,2) Show SetContent(1,0,'世') ... InjectKeyBytes(<EUC-JP text>) Drain"}})
	fmt.Println(string(sum))
	return nil
}

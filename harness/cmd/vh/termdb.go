package main

import (
	"encoding/json"
	"errors"
	"flag"
	"fmt"
	"hash/fnv"
	"math/rand"
	"os"
	"reflect"
	"sort"
	"strings"

	"github.com/gdamore/tcell/v2/terminfo"
	_ "github.com/gdamore/tcell/v2/terminfo/extended"

	"verifharness/trace"
)

func init() {
	register("termdb", "C14: dump the terminal database and log ordered pairs of lookups", termdbMain)
}

var synthFields = map[string]bool{"Colors": true, "SetFg": true, "SetBg": true, "SetFgBg": true, "ResetFgBg": true,
	"SetFgRGB": true, "SetBgRGB": true, "SetFgBgRGB": true, "TrueColor": true}

// project encodes the fields a lookup may synthesize plus a digest of everything else.
func project(ti *terminfo.Terminfo) map[string]interface{} {
	m := map[string]interface{}{}
	h := fnv.New32a()
	v := reflect.ValueOf(*ti)
	for i := 0; i < v.NumField(); i++ {
		n := v.Type().Field(i).Name
		f := v.Field(i)
		if synthFields[n] {
			switch f.Kind() {
			case reflect.String:
				m[n] = trace.Str(f.String())
			case reflect.Int:
				m[n] = int(f.Int())
			case reflect.Bool:
				m[n] = f.Bool()
			}
			continue
		}
		fmt.Fprintf(h, "%s=%v;", n, f.Interface())
	}
	m["Name"] = trace.Str(ti.Name)
	m["rest"] = int(h.Sum32() >> 1)
	return m
}

var suppliedParams = map[string]int{"SetFg": 1, "SetBg": 1, "SetFgBg": 2, "SetCursor": 2, "SetFgRGB": 3, "SetBgRGB": 3, "SetFgBgRGB": 6,
	"UnderlineColor": 1, "UnderlineColorRGB": 3, "CursorColorRGB": 3, "SetWindowSize": 2, "EnterUrl": 2, "SetWindowTitle": 1}

func termdbMain(args []string) error {
	fs := flag.NewFlagSet("termdb", flag.ExitOnError)
	out := fs.String("out", "trace.ndjson", "trace file")
	seed := fs.Int64("seed", 1, "seed")
	npairs := fs.Int("pairs", 3000, "ordered pairs of lookups (0: all)")
	fs.Parse(args)
	tw, err := trace.Create(*out)
	if err != nil {
		return err
	}
	rng := rand.New(rand.NewSource(*seed))
	os.Unsetenv("COLORTERM")
	os.Unsetenv("TCELL_TRUECOLOR")

	// pristine snapshot, taken before any lookup or screen has touched the database
	names := terminfo.VerifNames()
	pristine := map[string]terminfo.Terminfo{}
	byPtr := map[*terminfo.Terminfo]string{}
	var dbj []interface{}
	for _, n := range names {
		e := terminfo.VerifEntry(n)
		if _, ok := byPtr[e]; !ok {
			byPtr[e] = n
			pristine[e.Name] = *e
		}
		dbj = append(dbj, []interface{}{trace.Str(n), project(e)})
	}
	restore := func() {
		for _, e := range pristine {
			c := e
			c.Aliases = append([]string(nil), e.Aliases...)
			terminfo.AddTerminfo(&c)
		}
	}
	tw.Emit(trace.Ev{"ev": "Reset"})
	tw.Emit(trace.Ev{"ev": "Config", "db": dbj})

	// static part
	for _, n := range names {
		e := terminfo.VerifEntry(n)
		caps := []interface{}{}
		v := reflect.ValueOf(*e)
		keyset := map[string]bool{}
		for i := 0; i < v.NumField(); i++ {
			fn := v.Type().Field(i).Name
			f := v.Field(i)
			if f.Kind() != reflect.String || f.String() == "" {
				continue
			}
			if np, ok := suppliedParams[fn]; ok {
				caps = append(caps, []interface{}{fn, trace.Str(f.String()), np})
			}
			if strings.HasPrefix(fn, "Key") {
				keyset[f.String()] = true
			}
		}
		var keys []string
		for k := range keyset {
			keys = append(keys, k)
		}
		sort.Strings(keys)
		kj := make([]interface{}, len(keys))
		for i, k := range keys {
			kj[i] = trace.Str(k)
		}
		tw.Emit(trace.Ev{"ev": "Entry", "name": n, "cup": e.SetCursor != "", "caps": caps, "keys": kj, "Colors": e.Colors,
			"SetFg": trace.Str(e.SetFg), "SetBg": trace.Str(e.SetBg), "ecma": strings.HasPrefix(e.SetCursor, "\x1b[")})
	}

	// dynamic part: candidate names
	cand := map[string]bool{}
	for _, n := range names {
		cand[n] = true
		base := n
		for _, sfx := range []string{"-truecolor", "-256color", "-88color", "-color"} {
			base = strings.TrimSuffix(base, sfx)
		}
		for _, sfx := range []string{"", "-truecolor", "-256color", "-88color", "-color"} {
			cand[base+sfx] = true
		}
	}
	for _, n := range []string{"nosuchterm", "nosuchterm-256color", "nosuchterm-truecolor", "dumb", "-truecolor", "-256color", "x"} {
		cand[n] = true
	}
	var cl []string
	for n := range cand {
		cl = append(cl, n)
	}
	sort.Strings(cl)
	// "=": the variable is set, to the empty string (means the same as unset)
	envs := [][2]string{{"", ""}, {"truecolor", ""}, {"24bit", ""}, {"", "disable"}, {"truecolor", "disable"}, {"", "1"}, {"other", ""}, {"", "="}, {"=", ""}, {"truecolor", "="}}
	lookup := func(name string, env [2]string, first bool, prev string) {
		e, err := terminfo.LookupTerminfo(name)
		ev := trace.Ev{"ev": "Lookup", "name": trace.Str(name), "env": map[string]interface{}{"colorterm": trace.Str(strings.TrimPrefix(env[0], "=")), "tcelltc": trace.Str(strings.TrimPrefix(env[1], "="))},
			"found": err == nil, "notfound": errors.Is(err, terminfo.ErrTermNotFound), "first": first, "prev": trace.Str(prev)}
		if err == nil {
			ev["e"] = project(e)
		}
		tw.Emit(ev)
	}
	pairs := 0
	doPair := func(a, b string, env [2]string) {
		restore()
		os.Setenv("COLORTERM", strings.TrimPrefix(env[0], "="))
		os.Setenv("TCELL_TRUECOLOR", strings.TrimPrefix(env[1], "="))
		if env[0] == "" {
			os.Unsetenv("COLORTERM")
		}
		if env[1] == "" {
			os.Unsetenv("TCELL_TRUECOLOR")
		}
		lookup(a, env, true, "")
		lookup(b, env, false, a)
		pairs++
		if pairs%3000 == 0 {
			tw.Emit(trace.Ev{"ev": "Reset"})
			tw.Emit(trace.Ev{"ev": "Config", "db": dbj})
		}
	}
	if *npairs == 0 {
		for _, a := range cl {
			for _, b := range cl {
				doPair(a, b, envs[(len(a)+len(b))%len(envs)])
			}
		}
	}
	// related pairs first (same base), then random ones
	for _, a := range cl {
		for _, b := range cl {
			ba, bb := strings.SplitN(a, "-", 2)[0], strings.SplitN(b, "-", 2)[0]
			if ba == bb && a != b {
				for _, env := range envs[:3] {
					if *npairs == 0 || rng.Intn(4) == 0 {
						doPair(a, b, env)
					}
				}
			}
		}
	}
	for i := 0; i < *npairs; i++ {
		doPair(cl[rng.Intn(len(cl))], cl[rng.Intn(len(cl))], envs[rng.Intn(len(envs))])
	}
	// a name that is unknown when first asked for and registered afterwards (the order in which an application's own
	// fallback works): what a lookup returns does not depend on the earlier, failed one
	restore()
	os.Unsetenv("COLORTERM")
	os.Unsetenv("TCELL_TRUECOLOR")
	for _, late := range []string{"zz-late", "zzlate2"} {
		_, e1 := terminfo.LookupTerminfo(late)
		_, e2 := terminfo.LookupTerminfo(late + "-truecolor")
		_, e3 := terminfo.LookupTerminfo(late + "-256color")
		if base, err := terminfo.LookupTerminfo("xterm"); err == nil {
			cp := *base
			cp.Name = late
			cp.Aliases = nil
			terminfo.AddTerminfo(&cp)
		}
		a, f1 := terminfo.LookupTerminfo(late)
		_, f2 := terminfo.LookupTerminfo(late + "-truecolor")
		_, f3 := terminfo.LookupTerminfo(late + "-256color")
		tw.Emit(trace.Ev{"ev": "Register", "name": trace.Str(late),
			"unknown_before": errors.Is(e1, terminfo.ErrTermNotFound) && errors.Is(e2, terminfo.ErrTermNotFound) && errors.Is(e3, terminfo.ErrTermNotFound),
			"found_after":    f1 == nil && a != nil && a.Name == late, "truecolor_after": f2 == nil, "c256_after": f3 == nil})
	}
	restore()
	if err := tw.Close(); err != nil {
		return err
	}
	sum, _ := json.Marshal(map[string]interface{}{"histories": pairs, "events": tw.N, "ops": pairs * 2, "distinct": pairs,
		"names": len(cl), "entries": len(names), "samples": []string{cl[3] + " then " + cl[len(cl)/2], "rxvt-truecolor then rxvt-256color (COLORTERM unset)"}})
	fmt.Println(string(sum))
	return nil
}

package main

import (
	"fmt"
	"math/rand"
	"os"
	"time"
	"unicode"
	"unicode/utf8"

	"github.com/gdamore/tcell/v2"
	"github.com/gdamore/tcell/v2/encoding"
	"github.com/gdamore/tcell/v2/terminfo"
	xenc "golang.org/x/text/encoding"

	"verifharness/faketty"
	"verifharness/trace"
)

// statelessCharsets: every charset the encoding package registers except the escape-driven
// 7-bit ISO-2022-JP and HZ-GB2312 encodings.
var statelessCharsets = []string{"UTF-8", "US-ASCII", "ISO8859-1", "ISO8859-2", "ISO8859-3", "ISO8859-4", "ISO8859-5",
	"ISO8859-6", "ISO8859-7", "ISO8859-8", "ISO8859-9", "ISO8859-10", "ISO8859-13", "ISO8859-14", "ISO8859-15",
	"ISO8859-16", "KOI8-R", "KOI8-U", "EUC-JP", "SHIFT_JIS", "EUC-KR", "GB18030", "GBK", "Big5"}

var multiByte = map[string]bool{"EUC-JP": true, "SHIFT_JIS": true, "EUC-KR": true, "GB18030": true, "GBK": true, "Big5": true}

// encodable returns the runes (up to max, stride-sampled) that the charset encodes and that decode back.
func encodable(cs string, enc xenc.Encoding, stride int) []rune {
	var out []rune
	e := enc.NewEncoder()
	d := enc.NewDecoder()
	hi := rune(0xFFFF)
	for r := rune(0x20); r <= hi; r += rune(stride) {
		if r == 0x7f || (r >= 0x80 && r < 0xa0) || !unicode.IsPrint(r) {
			continue
		}
		b, err := e.Bytes([]byte(string(r)))
		if err != nil || len(b) == 0 {
			continue
		}
		back, err := d.Bytes(b)
		if err != nil || string(back) != string(r) {
			continue
		}
		if b[0] < 0x20 || b[0] == 0x7f || b[0] == 0x1b {
			continue
		}
		out = append(out, r)
	}
	if cs == "UTF-8" {
		out = append(out, 0x10000, 0x1f600, 0x10ffff-2, 0x2f800)
		if stride > 1 {
			out = append(out, 0xfffd) // whatever the stride: the character the decoders use as their error marker
		}
	}
	return out
}

func textRuns(tw *trace.Writer, rng *rand.Rand, n int, exh bool, st map[string]interface{}) error {
	encoding.Register()
	strs, runs := 0, 0
	distinct := map[string]bool{}
	samples := []string{}
	terms := []string{"xterm-256color", "vt100", "linux", "rxvt-unicode"}
	for _, cs := range statelessCharsets {
		enc := tcell.GetEncoding(cs)
		if enc == nil {
			return fmt.Errorf("charset %s not registered", cs)
		}
		stride := 1
		if multiByte[cs] || cs == "UTF-8" {
			stride = 7
			if exh {
				stride = 1
			}
		}
		rs := encodable(cs, enc, stride)
		if len(rs) == 0 {
			return fmt.Errorf("charset %s: nothing encodable", cs)
		}
		for _, tn := range terms {
			ti := *terminfo.VerifEntry(tn)
			cp := ti
			vp, err := tcell.NewVerifParser(&cp, cs, 80, 24)
			if err != nil {
				return err
			}
			_ = vp
			hasPaste := ti.EnablePaste != "" || ti.Mouse != "" || cp.XTermLike
			tw.Emit(trace.Ev{"ev": "Reset"})
			tw.Emit(trace.Ev{"ev": "Config", "term": tn, "mode": "text", "cs": cs, "paste": hasPaste, "kRune": int(tcell.KeyRune)})
			cnt := n
			if tn != terms[0] {
				cnt = n / 4
			}
			// make sure every sampled rune appears at least once on the first terminal
			pos := 0
			for i := 0; i < cnt || (tn == terms[0] && pos < len(rs)); i++ {
				ln := 1 + rng.Intn(4)
				src := make([]rune, 0, ln)
				for k := 0; k < ln; k++ {
					if tn == terms[0] && pos < len(rs) {
						src = append(src, rs[pos])
						pos++
					} else {
						src = append(src, rs[rng.Intn(len(rs))])
					}
				}
				b, err := enc.NewEncoder().Bytes([]byte(string(src)))
				if err != nil {
					continue
				}
				paste := hasPaste && rng.Intn(4) == 0
				focus := rng.Intn(6) == 0
				full := b
				if paste {
					full = append(append([]byte("\x1b[200~"), b...), []byte("\x1b[201~")...)
				}
				focus2 := focus && rng.Intn(2) == 0 // the terminal reports the same focus change twice in a row
				fin := rng.Intn(2)                  // focus in (1) or out (0): the report ends the input
				rep := []byte("\x1b[I")
				if fin == 0 {
					rep = []byte("\x1b[O")
				}
				if focus {
					full = append(full, rep...)
				}
				if focus2 {
					full = append(full, rep...)
				}
				strs++
				if !distinct[string(full)+cs] {
					distinct[string(full)+cs] = true
				}
				if len(samples) < 4 && (multiByte[cs] || cs == "KOI8-R") && i == 3 {
					samples = append(samples, fmt.Sprintf("%s/%s: %q = % x", cs, tn, string(src), full))
				}
				var cutsets [][]int
				cutsets = append(cutsets, nil)
				if len(full) > 1 {
					if len(full) <= 12 || exh {
						for c := 1; c < len(full); c++ {
							cutsets = append(cutsets, []int{c})
						}
					} else {
						for k := 0; k < 4; k++ {
							cutsets = append(cutsets, []int{1 + rng.Intn(len(full)-1)})
						}
					}
					all := []int{}
					for c := 1; c < len(full); c++ {
						all = append(all, c)
					}
					cutsets = append(cutsets, all)
				}
				for _, cuts := range cutsets {
					r := decode(ti, cs, 80, 24, split(full, cuts), nil)
					e := runEvent("Text", strs, full, cuts, r)
					e["src"], e["paste"], e["focus"], e["focus2"], e["fin"] = trace.Runes(src), paste, focus, focus2, fin
					tw.Emit(e)
					runs++
				}
			}
		}
	}
	_ = utf8.RuneLen
	nloc, err := localeRuns(tw)
	if err != nil {
		return err
	}
	st["histories"], st["ops"], st["distinct"], st["samples"], st["charsets"] = strs, runs+nloc, len(distinct), samples, len(statelessCharsets)
	st["locales"] = nloc
	return nil
}

// localeRuns: the character set a real screen takes from the POSIX locale variables (LC_ALL, then LC_CTYPE, then
// LANG), and text typed in that character set, through Init on a fake tty.
func localeRuns(tw *trace.Writer) (int, error) {
	type env struct{ all, ctype, lang string }
	cases := []env{
		{"en_US.UTF-8", "", ""}, {"C.UTF-8", "", ""}, {"C.utf8", "", ""}, {"POSIX.UTF-8", "", ""}, {"C", "", ""}, {"POSIX", "", ""},
		{"", "", ""}, {"de_DE", "", ""}, {"de_DE@euro", "", ""}, {"de_DE.ISO8859-15@euro", "", ""}, {"de_DE.ISO8859-1", "", ""},
		{"ru_RU.KOI8-R", "", ""}, {"ja_JP.EUC-JP", "", ""}, {"zh_TW.Big5", "", ""}, {"", "ru_RU.KOI8-R", "en_US.UTF-8"},
		{"", "", "el_GR.ISO8859-7"}, {"", "C", "en_US.UTF-8"}, {"C", "en_US.UTF-8", "en_US.UTF-8"}, {"", "", "C.UTF-8"},
		{"en_US.UTF-8", "C", "C"}, {"", "POSIX.UTF-8", ""}, {"C.ISO8859-1", "", ""},
	}
	saved := map[string]string{}
	for _, k := range []string{"LC_ALL", "LC_CTYPE", "LANG"} {
		saved[k] = os.Getenv(k)
	}
	defer func() {
		for k, v := range saved {
			os.Setenv(k, v)
		}
	}()
	tw.Emit(trace.Ev{"ev": "Reset"})
	tw.Emit(trace.Ev{"ev": "Config", "term": "xterm-256color", "mode": "text", "cs": "locale", "paste": true, "kRune": int(tcell.KeyRune)})
	sample := []rune{'a', 0xe9, 0x416, 0x3b1, 0x4e16, 0x20ac, 'z'}
	for _, c := range cases {
		os.Setenv("LC_ALL", c.all)
		os.Setenv("LC_CTYPE", c.ctype)
		os.Setenv("LANG", c.lang)
		ti := *terminfo.VerifEntry("xterm-256color")
		tty := faketty.New(20, 5)
		s, err := tcell.NewTerminfoScreenFromTtyTerminfo(tty, &ti)
		e := trace.Ev{"ev": "Locale", "lc_all": trace.Str(c.all), "lc_ctype": trace.Str(c.ctype), "lang": trace.Str(c.lang),
			"charset": []int{}, "initerr": "", "src": []int{}, "got": []int{}, "registered": false}
		if err != nil {
			return 0, err
		}
		if err := s.Init(); err != nil {
			e["initerr"] = err.Error()
			tw.Emit(e)
			continue
		}
		cs := s.CharacterSet()
		e["charset"] = trace.Str(cs)
		// type the sample runes this character set has, encoded by an encoder of our own
		if enc := tcell.GetEncoding(cs); enc != nil {
			e["registered"] = true
			var src []rune
			var bytesIn []byte
			for _, r := range sample {
				b, err := enc.NewEncoder().Bytes([]byte(string(r)))
				if err == nil && len(b) > 0 && (r < 0x80 || b[0] != 0x1a) && !(len(b) == 1 && b[0] == '?' && r != '?') {
					src = append(src, r)
					bytesIn = append(bytesIn, b...)
				}
			}
			drainPending(s, "text", nil, nil)
			tty.Inject(bytesIn)
			var got []rune
			deadline := time.After(2 * time.Second)
			evc := make(chan tcell.Event, 64)
			go func() {
				for {
					ev := s.PollEvent()
					if ev == nil {
						close(evc)
						return
					}
					evc <- ev
				}
			}()
		collect:
			for len(got) < len(src) {
				select {
				case ev, ok := <-evc:
					if !ok {
						break collect
					}
					if k, ok := ev.(*tcell.EventKey); ok && k.Key() == tcell.KeyRune {
						got = append(got, k.Rune())
					}
				case <-deadline:
					break collect
				}
			}
			e["src"], e["got"] = trace.Runes(src), trace.Runes(got)
		}
		s.Fini()
		tw.Emit(e)
	}
	return len(cases), nil
}

package main

import (
	"bufio"
	"bytes"
	"encoding/json"
	"flag"
	"fmt"
	"math"
	"math/rand"
	"os"
	"reflect"
	"sort"
	"strings"
	"time"

	"github.com/gdamore/tcell/v2/terminfo"
	_ "github.com/gdamore/tcell/v2/terminfo/extended"

	"verifharness/trace"
)

func init() {
	register("tparm", "C07 C15: call the real TParm / TPuts / TGoto / TColor and log arguments and results", tparmMain)
}

type tpVal struct {
	isStr bool
	n     int
	s     string
}

func (v tpVal) json() []interface{} {
	if v.isStr {
		return []interface{}{1, trace.Str(v.s)}
	}
	return []interface{}{0, v.n}
}

func (v tpVal) iface() interface{} {
	if v.isStr {
		return v.s
	}
	return v.n
}

var tpTi = &terminfo.Terminfo{}

type tpRun struct {
	tw      *trace.Writer
	calls   int
	kinds   map[string]int
	progs   map[string]bool
	samples []string
	statics map[byte]bool // static variables possibly non-zero
	sbound  map[byte]float64
	skipped int
}

// mayOverflow32 bounds the magnitude of every value the program can compute (both branches of every conditional are
// walked, so it is an upper bound) and says whether one could leave the 32-bit range.  TLC's integers are 32 bits
// wide: such a call could not be re-evaluated by the specification, so it is not made at all (static variables
// stay in step).  Bounds of static variables are kept across calls.
func (r *tpRun) mayOverflow32(prog string, prm []tpVal) bool {
	const lim = float64(1 << 30)
	if r.sbound == nil {
		r.sbound = map[byte]float64{}
	}
	var stk []float64
	pop := func() float64 {
		if len(stk) == 0 {
			return 0
		}
		v := stk[len(stk)-1]
		stk = stk[:len(stk)-1]
		return v
	}
	pb := func(i int) float64 {
		if i < 0 || i >= len(prm) {
			return 0
		}
		if prm[i].isStr {
			return float64(len(prm[i].s))
		}
		return math.Abs(float64(prm[i].n)) + 1 // %i may add one
	}
	dyn := map[byte]float64{}
	staged := map[byte]float64{}
	big := false
	push := func(v float64) {
		if v >= lim {
			big = true
		}
		stk = append(stk, v)
	}
	for i := 0; i < len(prog); i++ {
		if prog[i] != '%' || i+1 >= len(prog) {
			continue
		}
		i++
		switch c := prog[i]; {
		case c == 'p' && i+1 < len(prog):
			i++
			push(pb(int(prog[i] - '1')))
		case c == '{':
			n := 0.0
			for i++; i < len(prog) && prog[i] != '}'; i++ {
				if prog[i] >= '0' && prog[i] <= '9' {
					n = n*10 + float64(prog[i]-'0')
				}
			}
			push(n)
		case c == '\'':
			i += 2
			push(255)
		case c == '+' || c == '-':
			push(pop() + pop())
		case c == '*':
			push(pop() * pop())
		case c == '/' || c == 'm':
			b, a := pop(), pop()
			_ = b
			push(a)
		case c == '&' || c == '|' || c == '^':
			a, b := pop(), pop()
			push(2*math.Max(a, b) + 1)
		case c == '~':
			push(pop() + 1)
		case c == '!' || c == '=' || c == '<' || c == '>' || c == 'A' || c == 'O':
			if c != '!' {
				pop()
			}
			pop()
			push(1)
		case c == 'l':
			pop()
			push(64)
		case c == 'P' && i+1 < len(prog):
			i++
			v := pop()
			if prog[i] >= 'A' && prog[i] <= 'Z' {
				staged[prog[i]] = math.Max(math.Max(staged[prog[i]], r.sbound[prog[i]]), v)
			} else {
				dyn[prog[i]] = math.Max(dyn[prog[i]], v)
			}
		case c == 'g' && i+1 < len(prog):
			i++
			if prog[i] >= 'A' && prog[i] <= 'Z' {
				push(math.Max(staged[prog[i]], r.sbound[prog[i]]))
			} else {
				push(dyn[prog[i]])
			}
		case c == 'd' || c == 'c' || c == 's' || c == 'x' || c == 'X' || c == 'o' || c == 't':
			pop()
		}
	}
	if big {
		return true
	}
	for k, v := range staged {
		r.sbound[k] = v
	}
	return false
}

// call evaluates prog with the real TParm under a watchdog and logs it.
func (r *tpRun) call(kind, prog string, wf bool, prm []tpVal) {
	if wf && r.mayOverflow32(prog, prm) {
		r.skipped++
		return
	}
	args := make([]interface{}, len(prm))
	pj := make([]interface{}, len(prm))
	for i, p := range prm {
		args[i] = p.iface()
		pj[i] = p.json()
	}
	var out string
	panicd, hang := false, false
	done := make(chan struct{})
	go func() {
		defer close(done)
		defer func() {
			if x := recover(); x != nil {
				panicd = true
			}
		}()
		out = tpTi.TParm(prog, args...)
	}()
	select {
	case <-done:
	case <-time.After(3 * time.Second):
		hang = true
	}
	r.tw.Emit(trace.Ev{"ev": "TParm", "kind": kind, "prog": trace.Str(prog), "prm": pj, "out": trace.Str(out),
		"wf": wf, "panic": panicd, "hang": hang})
	r.calls++
	r.kinds[kind]++
	if !r.progs[prog] {
		r.progs[prog] = true
		if len(r.samples) < 6 && (kind == "gen" || kind == "db") && r.calls%7 == 0 {
			r.samples = append(r.samples, fmt.Sprintf("%s %q %v -> %q", kind, prog, args, out))
		}
	}
	for i := 0; i+2 < len(prog); i++ {
		if prog[i] == '%' && prog[i+1] == 'P' && prog[i+2] >= 'A' && prog[i+2] <= 'Z' {
			r.statics[prog[i+2]] = true
		}
	}
}

// reset starts a new history: static variables are put back to zero through logged calls.
func (r *tpRun) reset() {
	var ks []int
	for k := range r.statics {
		ks = append(ks, int(k))
	}
	sort.Ints(ks)
	for _, k := range ks {
		r.call("reset", fmt.Sprintf("%%{0}%%P%c", byte(k)), true, nil)
	}
	r.statics = map[byte]bool{}
	r.sbound = map[byte]float64{}
	r.tw.Emit(trace.Ev{"ev": "Reset"})
}

// ---------------------------------------------------------------- program generator

type tpGen struct {
	rng   *rand.Rand
	nInt  int // parameters 1..nInt are integers
	nStr  int // parameters nInt+1..nInt+nStr are strings
	depth int
}

func (g *tpGen) lit() string {
	alpha := []string{"a", "e", "t", ";", "[", "\x1b", "m", "?", "x", "0", " ", "$", "<", ">", "H", "%%"}
	n := 1 + g.rng.Intn(3)
	s := ""
	for i := 0; i < n; i++ {
		s += alpha[g.rng.Intn(len(alpha))]
	}
	return s
}

// expr returns an integer expression and whether its value is known to be non-negative and small.
func (g *tpGen) expr(d int) (string, bool) {
	r := g.rng
	if d <= 0 || r.Intn(3) == 0 {
		switch k := r.Intn(7); {
		case k < 3 && g.nInt > 0:
			return fmt.Sprintf("%%p%d", 1+r.Intn(g.nInt)), true
		case k < 4:
			return fmt.Sprintf("%%{%d}", []int{0, 1, 2, 8, 16, 255, 1000}[r.Intn(7)]), true
		case k < 5:
			return fmt.Sprintf("%%'%c'", "a A0("[r.Intn(5)]), true
		case k < 6:
			return fmt.Sprintf("%%g%c", 'a'+byte(r.Intn(3))), false
		default:
			return fmt.Sprintf("%%g%c", 'A'+byte(r.Intn(3))), false
		}
	}
	switch k := r.Intn(10); {
	case k < 5:
		a, an := g.expr(d - 1)
		b, bn := g.expr(d - 1)
		ops := []string{"%+", "%-", "%=", "%<", "%>", "%A", "%O", "%/", "%m"}
		if an && bn {
			ops = append(ops, "%&", "%|", "%^")
		}
		op := ops[r.Intn(len(ops))]
		if op == "%*" {
			op = "%+"
		}
		nn := an && bn && op != "%-"
		if op == "%=" || op == "%<" || op == "%>" || op == "%A" || op == "%O" {
			nn = true
		}
		return a + b + op, nn
	case k < 6:
		// multiplication of leaves only (keeps values inside 32 bits)
		a, an := g.expr(0)
		b, bn := g.expr(0)
		return a + b + "%*", an && bn
	case k < 7:
		a, _ := g.expr(d - 1)
		return a + "%!", true
	case k < 8:
		a, _ := g.expr(d - 1)
		return a + "%~", false
	case k < 9 && g.nStr > 0:
		return fmt.Sprintf("%%p%d%%l", g.nInt+1+r.Intn(g.nStr)), true
	default:
		return g.expr(d - 1)
	}
}

func (g *tpGen) item(d int) string {
	r := g.rng
	switch k := r.Intn(14); {
	case k < 3:
		return g.lit()
	case k < 6:
		e, nn := g.expr(2)
		fm := []string{"%d", "%d", "%2d", "%02d", "%3d", "%:-4d", "% d", "%.3d", "%c"}
		if nn {
			fm = append(fm, "%x", "%X", "%o", "%04x")
		}
		f := fm[r.Intn(len(fm))]
		if f == "%c" {
			return e + "%{26}%m%'a'%+%c" // keep the byte printable so that literals stay recognisable
		}
		return e + f
	case k < 7 && g.nStr > 0:
		return fmt.Sprintf("%%p%d%s", g.nInt+1+r.Intn(g.nStr), []string{"%s", "%s", "%5s", "%:-5s", "%.2s"}[r.Intn(5)])
	case k < 8:
		e, _ := g.expr(1)
		return e + fmt.Sprintf("%%P%c", 'a'+byte(r.Intn(3)))
	case k < 9:
		e, _ := g.expr(1)
		return e + fmt.Sprintf("%%P%c", 'A'+byte(r.Intn(3)))
	case k < 10 && g.nInt >= 2:
		return "%i"
	default:
		if d <= 0 {
			return g.lit()
		}
		return g.cond(d)
	}
}

func (g *tpGen) prog(d int) string {
	n := g.rng.Intn(3)
	if d == g.depth {
		n = 1 + g.rng.Intn(3)
	}
	s := ""
	for i := 0; i < n; i++ {
		s += g.item(d)
	}
	return s
}

func (g *tpGen) cond(d int) string {
	c, _ := g.expr(1)
	s := "%?" + c + "%t" + g.prog(d-1)
	for g.rng.Intn(3) == 0 { // else-if chain
		c2, _ := g.expr(1)
		s += "%e" + c2 + "%t" + g.prog(d-1)
	}
	if g.rng.Intn(3) != 0 {
		s += "%e" + g.prog(d-1)
	}
	return s + "%;"
}

func (g *tpGen) params() []tpVal {
	var p []tpVal
	for i := 0; i < g.nInt; i++ {
		p = append(p, tpVal{n: []int{0, 1, 2, 7, 8, 15, 16, 99, 255, 1000}[g.rng.Intn(10)]})
	}
	for i := 0; i < g.nStr; i++ {
		p = append(p, tpVal{isStr: true, s: []string{"", "x", "hello", "a;b", "%d", "caf\u00e9", "\u4e16\u754c!", "\xff\x80"}[g.rng.Intn(8)]})
	}
	return p
}

// ---------------------------------------------------------------- database strings

var hardCoded = map[string]int{ // sequences tscreen.go hard-codes -> number of integer parameters (negative: strings)
	"\x1b[58:5:%p1%dm":                                                  1,
	"\x1b[58:2::%p1%d:%p2%d:%p3%dm":                                     3,
	"\x1b]12;#%p1%02x%p2%02x%p3%02x\a":                                  3,
	"\x1b[8;%p1%p2%d;%dt":                                               2,
	"\x1b]8;%p2%s;%p1%s\x1b\\":                                          -2,
	"\x1b[>2t\x1b]2;%p1%s\x1b\\":                                        -1,
	"\x1b]52;c;%p1%s\x1b\\":                                             -1,
	"\x1b[38;2;%p1%d;%p2%d;%p3%dm":                                      3,
	"\x1b[48;2;%p1%d;%p2%d;%p3%dm":                                      3,
	"\x1b[38;2;%p1%d;%p2%d;%p3%d;48;2;%p4%d;%p5%d;%p6%dm":               6,
	"\x1b[%?%p1%{8}%<%t3%p1%d%e%p1%{16}%<%t9%p1%{8}%-%d%e38;5;%p1%d%;m": 1,
	"\x1b[%?%p1%{8}%<%t3%p1%d%e%p1%{16}%<%t9%p1%{8}%-%d%e38;5;%p1%d%;;%?%p2%{8}%<%t4%p2%d%e%p2%{16}%<%t10%p2%{8}%-%d%e48;5;%p2%d%;m": 2,
}

// dbPrograms returns the distinct parameterized strings of the database with the number of
// parameters tcell supplies for the capability.
func dbPrograms() map[string]int {
	progs := map[string]int{}
	nparams := map[string]int{"SetFg": 1, "SetBg": 1, "SetFgBg": 2, "SetCursor": 2, "SetFgRGB": 3, "SetBgRGB": 3, "SetFgBgRGB": 6,
		"UnderlineColor": 1, "UnderlineColorRGB": 3, "CursorColorRGB": 3, "SetWindowSize": 2, "EnterUrl": -2, "SetWindowTitle": -1}
	for _, n := range terminfo.VerifNames() {
		ti := terminfo.VerifEntry(n)
		v := reflect.ValueOf(*ti)
		for i := 0; i < v.NumField(); i++ {
			f := v.Field(i)
			if f.Kind() != reflect.String || !strings.Contains(f.String(), "%") {
				continue
			}
			name := v.Type().Field(i).Name
			if strings.HasPrefix(name, "Key") || name == "AltChars" {
				continue
			}
			np, ok := nparams[name]
			if !ok {
				np = 2
			}
			progs[f.String()] = np
		}
	}
	for p, n := range hardCoded {
		progs[p] = n
	}
	return progs
}

func tparmMain(args []string) error {
	fs := flag.NewFlagSet("tparm", flag.ExitOnError)
	out := fs.String("out", "trace.ndjson", "trace file")
	seed := fs.Int64("seed", 1, "seed")
	ngen := fs.Int("gen", 2000, "random well-formed programs")
	nrob := fs.Int("robust", 2000, "arbitrary byte strings")
	grid := fs.Int("grid", 24, "points per axis for database strings")
	full := fs.Bool("full", false, "sweep 0..1023 for one-parameter strings and cursor strings")
	beh := fs.String("behaviours", "", "model-generated cases (JSON: {p:[bytes], prm:[[0,n]..]})")
	mode := fs.String("mode", "tparm", "tparm | tputs")
	fs.Parse(args)
	tw, err := trace.Create(*out)
	if err != nil {
		return err
	}
	rng := rand.New(rand.NewSource(*seed))
	if *mode == "tputs" {
		return tputsRun(tw, rng, *grid, *full)
	}
	r := &tpRun{tw: tw, kinds: map[string]int{}, progs: map[string]bool{}, statics: map[byte]bool{}, samples: []string{}}
	tw.Emit(trace.Ev{"ev": "Reset"})

	// model-generated cases first, in order
	if *beh != "" {
		f, err := os.Open(*beh)
		if err != nil {
			return err
		}
		sc := bufio.NewScanner(f)
		sc.Buffer(make([]byte, 1<<20), 1<<26)
		n := 0
		for sc.Scan() {
			var c struct {
				P   []int           `json:"p"`
				Prm [][]interface{} `json:"prm"`
			}
			if err := json.Unmarshal(sc.Bytes(), &c); err != nil {
				return err
			}
			pb := make([]byte, len(c.P))
			for i, b := range c.P {
				pb[i] = byte(b)
			}
			var prm []tpVal
			for _, v := range c.Prm {
				prm = append(prm, tpVal{n: int(v[1].(float64))})
			}
			r.call("model", string(pb), true, prm)
			n++
			if n%2000 == 0 {
				r.reset()
			}
		}
		f.Close()
		r.reset()
	}

	// database strings over their parameter domain
	axis := func(max int) []int {
		pts := map[int]bool{0: true, 1: true, 2: true, 7: true, 8: true, 9: true, 10: true, 15: true, 16: true, 17: true,
			31: true, 32: true, 79: true, 80: true, 99: true, 100: true, 101: true, 127: true, 128: true, 222: true, 223: true,
			224: true, 255: true, 256: true, 999: true, 1000: true, 1023: true}
		for len(pts) < *grid+27 {
			pts[rng.Intn(max+1)] = true
		}
		var l []int
		for k := range pts {
			if k <= max {
				l = append(l, k)
			}
		}
		sort.Ints(l)
		return l
	}
	progs := dbPrograms()
	var plist []string
	for p := range progs {
		plist = append(plist, p)
	}
	sort.Strings(plist)
	for _, p := range plist {
		np := progs[p]
		switch {
		case np < 0:
			for _, s := range []string{"", "x", "http://example.org/a?b=1", "id=7", "%d%p1", "title with spaces", "na\u00efve \u4e16\u754c"} {
				prm := []tpVal{{isStr: true, s: s}}
				if np == -2 {
					prm = append(prm, tpVal{isStr: true, s: []string{"", "id=k"}[len(s)%2]})
				}
				r.call("db", p, true, prm)
			}
		case np == 1:
			max := 255
			if *full {
				max = 1023
				for v := 0; v <= max; v++ {
					r.call("db", p, true, []tpVal{{n: v}})
				}
			} else {
				for _, v := range axis(max) {
					r.call("db", p, true, []tpVal{{n: v}})
				}
			}
		case np == 2:
			ax := axis(1023)
			if *full {
				for a := 0; a <= 1023; a += 1 {
					r.call("db", p, true, []tpVal{{n: a}, {n: (a * 7) % 1024}})
					r.call("db", p, true, []tpVal{{n: (a * 13) % 1024}, {n: a}})
				}
			}
			for _, a := range ax {
				for _, b := range ax {
					r.call("db", p, true, []tpVal{{n: a}, {n: b}})
				}
			}
		default:
			for k := 0; k < 40**grid/24; k++ {
				var prm []tpVal
				for i := 0; i < np; i++ {
					prm = append(prm, tpVal{n: []int{0, 1, 127, 128, 254, 255, rng.Intn(256)}[rng.Intn(7)]})
				}
				r.call("db", p, true, prm)
			}
		}
		if r.calls > 20000 {
			r.reset()
			r.calls = 0
		}
	}
	total := 0
	r.reset()

	// generated programs
	for i := 0; i < *ngen; i++ {
		g := &tpGen{rng: rng, nInt: rng.Intn(4), nStr: rng.Intn(2), depth: 1 + rng.Intn(3)}
		p := g.prog(g.depth)
		for k := 0; k < 3; k++ {
			r.call("gen", p, true, g.params())
		}
		if i%500 == 499 {
			r.reset()
		}
	}
	r.reset()

	// %i is an operation (each one adds one to the first two parameters), wherever it stands
	for _, p := range []string{"%i%i%p1%d;%p2%d", "%i%p1%d%i%p2%d", "%p1%d%i%p1%d", "%i%i%i%p2%d", "\x1b[%i%p1%d;%p2%dH%i%p1%d", "%i%p3%d%p1%d"} {
		r.call("gen", p, true, []tpVal{{n: 5}, {n: 9}, {n: 3}})
	}
	r.reset()

	// strings through variables: whatever a string parameter looks like (digits, a sign, empty), a variable gives it
	// back as the string it was - dynamic and static variables, then %s, a width, %l, and use as a number
	for _, sp := range []string{"007", "+5", "-0", "00", "12", "", "0x10", " 7", "caf\u00e9", "9999999999"} {
		for _, p := range []string{"%p1%Pa%ga%s", "%p1%PA%gA%s|%gA%l%d", "%p1%Pb%gb%:-6s|", "%p1%PZ%p2%Pa%gZ%s%ga%d", "%p1%Pa%ga%l%d:%ga%s", "%p1%l%Pc%gc%d"} {
			r.call("gen", p, true, []tpVal{{isStr: true, s: sp}, {n: 7}})
		}
	}
	r.reset()

	// robustness: arbitrary bytes, biased to the operator alphabet
	alpha := []byte("%%%%?te;pPg{}'dcsxoil+-*/m&|^~!=<>AO:#. 0123456789aZ\x00\x1b\xff")
	for i := 0; i < *nrob; i++ {
		n := 1 + rng.Intn(24)
		b := make([]byte, n)
		for k := range b {
			if rng.Intn(8) == 0 {
				b[k] = byte(rng.Intn(256))
			} else {
				b[k] = alpha[rng.Intn(len(alpha))]
			}
		}
		r.call("robust", string(b), false, []tpVal{{n: rng.Intn(300)}, {n: rng.Intn(300)}, {isStr: true, s: "s"}})
		if i%2000 == 1999 {
			r.reset()
		}
	}
	r.reset()
	if err := tw.Close(); err != nil {
		return err
	}
	for _, v := range r.kinds {
		total += v
	}
	sum, _ := json.Marshal(map[string]interface{}{"histories": len(r.progs), "events": tw.N, "ops": total, "distinct": len(r.progs),
		"kinds": r.kinds, "samples": r.samples})
	fmt.Println(string(sum))
	return nil
}

// ---------------------------------------------------------------- TPuts / TGoto / TColor (C15)

func tputsRun(tw *trace.Writer, rng *rand.Rand, grid int, full bool) error {
	tw.Emit(trace.Ev{"ev": "Reset"})
	n, distinct := 0, map[string]bool{}
	samples := []string{}
	ti := &terminfo.Terminfo{} // no pad character: never sleeps
	emit := func(s string) {
		var buf bytes.Buffer
		panicd := false
		func() {
			defer func() {
				if recover() != nil {
					panicd = true
				}
			}()
			ti.TPuts(&buf, s)
		}()
		tw.Emit(trace.Ev{"ev": "TPuts", "s": trace.Str(s), "out": trace.Ints(buf.Bytes()), "panic": panicd})
		n++
		distinct[s] = true
		if n%20000 == 0 {
			tw.Emit(trace.Ev{"ev": "Reset"})
		}
	}
	// all strings over the alphabet up to the length bound
	alpha := []byte{'$', '<', '>', '.', '5', '0', '*', '/', 'a'}
	maxlen := 5
	if full {
		maxlen = 6
	}
	var rec func(prefix []byte)
	rec = func(prefix []byte) {
		if len(prefix) > 0 {
			emit(string(prefix))
		}
		if len(prefix) == maxlen {
			return
		}
		for _, c := range alpha {
			rec(append(append([]byte{}, prefix...), c))
		}
	}
	rec(nil)
	for i := 0; i < 3000; i++ {
		ln := 6 + rng.Intn(20)
		b := make([]byte, ln)
		for k := range b {
			b[k] = alpha[rng.Intn(len(alpha))]
			if rng.Intn(10) == 0 {
				b[k] = byte(rng.Intn(256))
			}
		}
		emit(string(b))
	}
	for _, s := range []string{"a$<1>b$<2*>c$<3/>d$<4*/>e$<5/*>f", "\x1b[H$<5>", "$<1.5>", "$<1.>", "$<.5>", "$<1.5.2>", "$<12", "x$<>y", "$<x>", "$<1**>", "$<1//>"} {
		emit(s)
		samples = append(samples, s)
	}
	// sleeping: observed coarsely; with a pad character the delay is slept, without one never - whatever the flags
	for _, pad := range []bool{true, false} {
		for _, s := range []string{"a$<200>b", "a$<150/>b", "a$<150*/>b", "a$<150/*>b", "a$<120*>b", "a$<0.5>b$<130>c", "$<60>x$<1.5*>y$<70/>"} {
			t2 := &terminfo.Terminfo{}
			if pad {
				t2.PadChar = "\x00"
			}
			var buf bytes.Buffer
			t0 := time.Now()
			t2.TPuts(&buf, s)
			tw.Emit(trace.Ev{"ev": "Sleep", "s": trace.Str(s), "pad": pad, "ms": int(time.Since(t0) / time.Millisecond)})
		}
	}
	tw.Emit(trace.Ev{"ev": "Reset"})
	// TGoto / TColor for every registered terminal
	pts := []int{0, 1, 2, 8, 9, 10, 22, 23, 24, 78, 79, 80, 98, 99, 100, 131, 132, 199, 200, 222, 223, 224, 255, 256, 299, 300}
	if full {
		pts = nil
		for i := 0; i <= 300; i++ {
			pts = append(pts, i)
		}
	}
	terms := 0
	for _, name := range terminfo.VerifNames() {
		e := *terminfo.VerifEntry(name)
		conv := "other"
		switch {
		case strings.HasPrefix(e.SetCursor, "\x1b["):
			conv = "ecma"
		case strings.HasPrefix(e.SetCursor, "\x1b="):
			conv = "off32eq"
		case strings.HasPrefix(e.SetCursor, "\x1bY"):
			conv = "off32Y"
		case strings.HasPrefix(e.SetCursor, "\x1b&a"):
			conv = "hp"
		}
		terms++
		step := 1
		if full {
			step = 3 // 101 x 301 positions per terminal
		}
		for i := 0; i < len(pts); i += step {
			for _, row := range pts {
				col := pts[i]
				var buf bytes.Buffer
				(&terminfo.Terminfo{}).TPuts(&buf, e.TGoto(col, row)) // padding such as $<5> is not part of the address
				tw.Emit(trace.Ev{"ev": "TGoto", "term": name, "conv": conv, "col": col, "row": row, "out": trace.Ints(buf.Bytes())})
				n++
			}
		}
		cpts := []int{-100, -2, -1, 0, 1, 7, 8, 9, 15, 16, 87, 88, 255, 256, 300}
		if full {
			cpts = nil
			for i := -1; i <= 300; i++ {
				cpts = append(cpts, i)
			}
			cpts = append(cpts, -2, -3, -100, -1000)
		}
		for i, fg := range cpts {
			for j, bg := range cpts {
				if full && (i+j)%5 != 0 {
					continue
				}
				var buf bytes.Buffer
				(&terminfo.Terminfo{}).TPuts(&buf, e.TColor(fg, bg))
				tw.Emit(trace.Ev{"ev": "TColor", "term": name, "colors": e.Colors, "fg": fg, "bg": bg, "out": trace.Ints(buf.Bytes()),
					"ecma": strings.HasPrefix(e.SetFg, "\x1b[") && strings.HasPrefix(e.SetBg, "\x1b[")})
				n++
			}
		}
		tw.Emit(trace.Ev{"ev": "Reset"})
	}
	if err := tw.Close(); err != nil {
		return err
	}
	sum, _ := json.Marshal(map[string]interface{}{"histories": terms, "events": tw.N, "ops": n, "distinct": len(distinct), "samples": samples})
	fmt.Println(string(sum))
	return nil
}

package main

import (
	"bufio"
	"encoding/json"
	"flag"
	"fmt"
	"math/rand"
	"os"

	"github.com/gdamore/tcell/v2"
	"github.com/gdamore/tcell/v2/views"

	"verifharness/trace"
)

func init() {
	register("views", "C20: drive views.ViewPort and views.BoxLayout over a recording parent view", viewsMain)
}

// recView records what reaches the parent.
type recView struct {
	w, h  int
	calls [][3]int // x, y, rune
}

func (r *recView) SetContent(x, y int, ch rune, comb []rune, style tcell.Style) {
	r.calls = append(r.calls, [3]int{x, y, int(ch)})
}
func (r *recView) Size() (int, int)       { return r.w, r.h }
func (r *recView) Resize(x, y, w, h int)  {}
func (r *recView) Fill(rune, tcell.Style) {}
func (r *recView) Clear()                 {}

func geom(vp *views.ViewPort) map[string]int {
	vx, vy, _, _ := vp.GetVisible()
	px, py, _, _ := vp.GetPhysical()
	w, h := vp.Size()
	return map[string]int{"px": px, "py": py, "vx": vx, "vy": vy, "w": w, "h": h}
}

func probes(vp *views.ViewPort, rv *recView, lo, hi int) []interface{} {
	// probing must not grow the content limits: lock them for the duration
	out := []interface{}{}
	for y := lo; y <= hi; y++ {
		for x := lo; x <= hi; x++ {
			rv.calls = rv.calls[:0]
			vp.SetContent(x, y, 'p', nil, tcell.StyleDefault)
			if len(rv.calls) == 1 {
				out = append(out, []interface{}{x, y, true, rv.calls[0][0], rv.calls[0][1]})
			} else if len(rv.calls) == 0 {
				out = append(out, []interface{}{x, y, false, 0, 0})
			} else {
				out = append(out, []interface{}{x, y, true, -999, -999})
			}
		}
	}
	return out
}

// fillProbe: what Fill (and Clear, which is a Fill) sends to the parent: bounding box, number of calls, number of
// distinct cells.
var fillToggle int

func fillProbe(vp *views.ViewPort, rv *recView) []int {
	rv.calls = rv.calls[:0]
	fillToggle++
	if fillToggle%2 == 0 {
		vp.Fill('f', tcell.StyleDefault)
	} else {
		vp.Clear()
	}
	out := []int{0, 0, 0, 0, len(rv.calls), 0}
	seen := map[[2]int]bool{}
	for i, c := range rv.calls {
		if i == 0 || c[0] < out[0] {
			out[0] = c[0]
		}
		if i == 0 || c[1] < out[1] {
			out[1] = c[1]
		}
		if i == 0 || c[0] > out[2] {
			out[2] = c[0]
		}
		if i == 0 || c[1] > out[3] {
			out[3] = c[1]
		}
		seen[[2]int{c[0], c[1]}] = true
	}
	out[5] = len(seen)
	rv.calls = rv.calls[:0]
	return out
}

type vpOp struct {
	Op     string `json:"op"`
	N      int    `json:"n"`
	X      int    `json:"x"`
	Y      int    `json:"y"`
	W      int    `json:"w"`
	H      int    `json:"h"`
	Locked bool   `json:"locked"`
}

func runViewPort(tw *trace.Writer, pw, ph int, ops []vpOp, maxc int) {
	rv := &recView{w: pw, h: ph}
	vp := views.NewViewPort(rv, 0, 0, 2, 2)
	tw.Emit(trace.Ev{"ev": "Reset"})
	emit := func(ev string, o vpOp, before [2]int, lockedNow bool) {
		lx, ly := vp.GetContentSize()
		cp := *vp // probes go through a copy: SetContent grows the limits of an unlocked viewport
		tw.Emit(trace.Ev{"ev": ev, "op": o.Op, "before": []int{before[0], before[1]}, "g": geom(vp), "lim": []int{lx, ly},
			"a": []int{o.N, o.X, o.Y, o.W, o.H}, "P": []int{rv.w, rv.h},
			"probes": probes(&cp, rv, -2, maxc+2), "fill": fillProbe(&cp, rv)})
	}
	locked := false
	emit("VpNew", vpOp{Op: "New"}, [2]int{0, 0}, locked)
	for _, o := range ops {
		g := geom(vp)
		before := [2]int{g["vx"], g["vy"]}
		if !guarded(tw, "viewport", o.Op, func() { vpApply(vp, o) }) {
			return
		}
		if o.Op == "SetContentSize" {
			locked = o.Locked
		}
		emit("VpOp", o, before, locked)
	}
}

// guarded runs one call of the code under test; a panic is logged as an event (the history ends there).
func guarded(tw *trace.Writer, area, op string, f func()) (ok bool) {
	defer func() {
		if r := recover(); r != nil {
			tw.Emit(trace.Ev{"ev": "Panic", "area": area, "op": op, "msg": trace.Str(fmt.Sprint(r))})
			ok = false
		}
	}()
	f()
	return true
}

func vpApply(vp *views.ViewPort, o vpOp) {
	{
		switch o.Op {
		case "ScrollUp":
			vp.ScrollUp(o.N)
		case "ScrollDown":
			vp.ScrollDown(o.N)
		case "ScrollLeft":
			vp.ScrollLeft(o.N)
		case "ScrollRight":
			vp.ScrollRight(o.N)
		case "Center":
			vp.Center(o.X, o.Y)
		case "MakeVisible":
			vp.MakeVisible(o.X, o.Y)
		case "SetContent":
			vp.SetContent(o.X, o.Y, 'c', nil, tcell.StyleDefault)
		case "SetSize":
			vp.SetSize(o.W, o.H)
		case "SetContentSize":
			vp.SetContentSize(o.W, o.H, o.Locked)
		case "Resize":
			vp.Resize(o.X, o.Y, o.W, o.H)
		case "Reset":
			vp.Reset()
		}
	}
}

// stubWidget is a child widget with a fixed preferred size that paints its whole view.
type stubWidget struct {
	views.WidgetWatchers
	pw, ph int
	view   views.View
	id     int
	// a nested BoxLayout with leaf children of its own (nil for a leaf)
	nest     *views.BoxLayout
	nhoriz   bool
	sub      []*stubWidget
	subfills []int
}

func (s *stubWidget) Draw() {
	if s.nest != nil {
		s.nest.Draw()
		return
	}
	if s.view == nil {
		return
	}
	w, h := s.view.Size()
	for y := 0; y < h; y++ {
		for x := 0; x < w; x++ {
			s.view.SetContent(x, y, rune(1000+s.id), nil, tcell.StyleDefault)
		}
	}
}
func (s *stubWidget) Resize() {
	if s.nest != nil {
		s.nest.Resize()
	}
}
func (s *stubWidget) HandleEvent(ev tcell.Event) bool { return false }

// Watch / Unwatch: events of the nested layout reach whoever watches the wrapper
func (s *stubWidget) Watch(h tcell.EventHandler) {
	s.WidgetWatchers.Watch(h)
	if s.nest != nil {
		s.nest.Watch(h)
	}
}
func (s *stubWidget) Unwatch(h tcell.EventHandler) {
	s.WidgetWatchers.Unwatch(h)
	if s.nest != nil {
		s.nest.Unwatch(h)
	}
}
func (s *stubWidget) SetView(v views.View) {
	s.view = v
	if s.nest != nil {
		s.nest.SetView(v)
	}
}
func (s *stubWidget) Size() (int, int) {
	if s.nest != nil {
		return s.nest.Size()
	}
	return s.pw, s.ph
}

type layoutRun struct {
	tw    *trace.Writer
	rv    *recView
	box   *views.BoxLayout
	kids  []*stubWidget
	fills []int
	horiz bool
	nextq int
}

func (r *layoutRun) observe(op string) {
	r.rv.calls = r.rv.calls[:0]
	r.box.Draw()
	type agg struct{ minx, miny, maxx, maxy, n int }
	per := map[int]*agg{}
	cells := map[[2]int]int{}
	over := 0
	for _, c := range r.rv.calls {
		if c[2] < 1000 {
			continue // the layout's own background fill
		}
		id := c[2] - 1000
		a := per[id]
		if a == nil {
			a = &agg{c[0], c[1], c[0], c[1], 0}
			per[id] = a
		}
		if c[0] < a.minx {
			a.minx = c[0]
		}
		if c[1] < a.miny {
			a.miny = c[1]
		}
		if c[0] > a.maxx {
			a.maxx = c[0]
		}
		if c[1] > a.maxy {
			a.maxy = c[1]
		}
		a.n++
		k := [2]int{c[0], c[1]}
		if prev, ok := cells[k]; ok && prev != id {
			over++
		}
		cells[k] = id
	}
	kids := []interface{}{}
	for i, k := range r.kids {
		vp, ok := k.view.(*views.ViewPort)
		x1, y1, x2, y2 := 0, 0, -1, -1
		if ok {
			x1, y1, x2, y2 = vp.GetPhysical()
		}
		d := []int{0, 0, 0, 0, 0}
		if a := per[k.id]; a != nil {
			d = []int{a.minx, a.miny, a.maxx, a.maxy, a.n}
		}
		pw, ph := k.Size()
		nest := []interface{}{}
		if k.nest != nil {
			subs := []interface{}{}
			for j, g := range k.sub {
				gx1, gy1, gx2, gy2 := 0, 0, -1, -1
				if gvp, ok := g.view.(*views.ViewPort); ok {
					gx1, gy1, gx2, gy2 = gvp.GetPhysical()
				}
				gd := []int{0, 0, 0, 0, 0}
				if a := per[g.id]; a != nil {
					gd = []int{a.minx, a.miny, a.maxx, a.maxy, a.n}
				}
				subs = append(subs, map[string]interface{}{"x": gx1, "y": gy1, "w": gx2 - gx1 + 1, "h": gy2 - gy1 + 1, "pw": g.pw, "ph": g.ph,
					"fill": k.subfills[j], "drawn": gd, "nest": []interface{}{}})
			}
			nest = append(nest, map[string]interface{}{"horiz": k.nhoriz, "kids": subs})
		}
		kids = append(kids, map[string]interface{}{"x": x1, "y": y1, "w": x2 - x1 + 1, "h": y2 - y1 + 1, "pw": pw, "ph": ph,
			"fill": r.fills[i], "drawn": d, "nest": nest})
	}
	want, got := []int{}, []int{}
	for _, k := range r.kids {
		want = append(want, k.id)
	}
	for _, w := range r.box.Widgets() {
		if sw, ok := w.(*stubWidget); ok {
			got = append(got, sw.id)
		} else {
			got = append(got, -1)
		}
	}
	r.tw.Emit(trace.Ev{"ev": "Layout", "op": op, "horiz": r.horiz, "W": r.rv.w, "H": r.rv.h, "kids": kids, "overdraw": over,
		"ids": want, "wids": got})
}

func runLayout(tw *trace.Writer, rng *rand.Rand, nops int) {
	tw.Emit(trace.Ev{"ev": "Reset"})
	r := &layoutRun{tw: tw, rv: &recView{w: 1 + rng.Intn(40), h: 1 + rng.Intn(20)}, horiz: rng.Intn(2) == 0}
	o := views.Vertical
	if r.horiz {
		o = views.Horizontal
	}
	r.box = views.NewBoxLayout(o)
	r.box.SetView(r.rv)
	for i := 0; i < nops; i++ {
		if !guarded(tw, "layout", "step", func() { r.step(rng) }) {
			return
		}
	}
}

func (r *layoutRun) step(rng *rand.Rand) {
	{
		switch k := rng.Intn(12); {
		case k == 10 && len(r.kids) > 0: // a child's content (preferred size) changes: it tells its watchers, the next Draw lays out again
			c := r.kids[rng.Intn(len(r.kids))]
			if c.nest != nil { // the nested layout loses or gains a leaf: its own preferred size follows, and the outer layout with it
				if len(c.sub) > 1 && rng.Intn(3) != 0 {
					j := rng.Intn(len(c.sub))
					if rng.Intn(2) == 0 { // the widest / tallest leaf, whose removal shrinks the cross axis
						for i, g := range c.sub {
							if g.pw+g.ph > c.sub[j].pw+c.sub[j].ph {
								j = i
							}
						}
					}
					c.nest.RemoveWidget(c.sub[j])
					c.sub = append(c.sub[:j], c.sub[j+1:]...)
					c.subfills = append(c.subfills[:j], c.subfills[j+1:]...)
					r.observe("NestedRemove")
				} else if rng.Intn(2) == 0 { // the nested layout turns: its preferred size changes with it
					c.nhoriz = !c.nhoriz
					if c.nhoriz {
						c.nest.SetOrientation(views.Horizontal)
					} else {
						c.nest.SetOrientation(views.Vertical)
					}
					r.observe("NestedOrient")
				} else if len(c.sub) < 4 {
					g := &stubWidget{pw: rng.Intn(7), ph: rng.Intn(5), id: r.nextq}
					r.nextq++
					gf := []int{0, 1, 2}[rng.Intn(3)]
					c.nest.AddWidget(g, float64(gf))
					c.sub = append(c.sub, g)
					c.subfills = append(c.subfills, gf)
					r.observe("NestedAdd")
				} else {
					r.observe("Draw")
				}
				return
			}
			c.pw, c.ph = rng.Intn(9), rng.Intn(6)
			c.PostEventWidgetContent(c)
			r.observe("ChildChange")
		case k == 11: // removing a widget the layout does not hold, and a style change: neither moves anything
			if rng.Intn(2) == 0 {
				r.box.RemoveWidget(&stubWidget{pw: 3, ph: 3, id: 999})
				r.observe("RemoveAbsent")
			} else {
				r.box.SetStyle(tcell.StyleDefault.Reverse(true))
				r.observe("SetStyle")
			}
		case k < 4 && len(r.kids) < 8:
			w := &stubWidget{pw: rng.Intn(9), ph: rng.Intn(6), id: r.nextq}
			r.nextq++
			if rng.Intn(4) == 0 { // a nested layout with leaves of its own
				w.nhoriz = rng.Intn(2) == 0
				o := views.Vertical
				if w.nhoriz {
					o = views.Horizontal
				}
				w.nest = views.NewBoxLayout(o)
				for j := 0; j < 1+rng.Intn(3); j++ {
					g := &stubWidget{pw: rng.Intn(5), ph: rng.Intn(4), id: r.nextq}
					r.nextq++
					gf := []int{0, 1, 1, 2}[rng.Intn(4)]
					w.nest.AddWidget(g, float64(gf))
					w.sub = append(w.sub, g)
					w.subfills = append(w.subfills, gf)
				}
				// a BoxLayout knows its preferred size only once it has been laid out: do that on a scratch view
				w.nest.SetView(&recView{w: 10, h: 10})
				w.nest.Resize()
			}
			f := []int{0, 0, 1, 1, 2, 3, 5}[rng.Intn(7)]
			if rng.Intn(2) == 0 {
				r.box.AddWidget(w, float64(f))
				r.kids = append(r.kids, w)
				r.fills = append(r.fills, f)
				r.observe("Add")
			} else {
				idx := rng.Intn(len(r.kids)+3) - 1
				r.box.InsertWidget(idx, w, float64(f))
				at := idx
				if at < 0 {
					at = 0
				}
				if at > len(r.kids) {
					at = len(r.kids)
				}
				r.kids = append(r.kids, nil)
				copy(r.kids[at+1:], r.kids[at:])
				r.kids[at] = w
				r.fills = append(r.fills, 0)
				copy(r.fills[at+1:], r.fills[at:])
				r.fills[at] = f
				r.observe("Insert")
			}
		case k < 6 && len(r.kids) > 0:
			i := rng.Intn(len(r.kids))
			r.box.RemoveWidget(r.kids[i])
			r.kids = append(r.kids[:i], r.kids[i+1:]...)
			r.fills = append(r.fills[:i], r.fills[i+1:]...)
			r.observe("Remove")
		case k < 8:
			r.rv.w, r.rv.h = 1+rng.Intn(40), 1+rng.Intn(20)
			r.box.Resize()
			r.observe("Resize")
		default:
			r.horiz = !r.horiz
			if r.horiz {
				r.box.SetOrientation(views.Horizontal)
			} else {
				r.box.SetOrientation(views.Vertical)
			}
			r.observe("SetOrientation")
		}
	}
}

func viewsMain(args []string) error {
	fs := flag.NewFlagSet("views", flag.ExitOnError)
	out := fs.String("out", "trace.ndjson", "trace file")
	seed := fs.Int64("seed", 1, "seed")
	nvp := fs.Int("viewports", 300, "random ViewPort histories")
	nlay := fs.Int("layouts", 300, "random BoxLayout histories")
	beh := fs.String("behaviours", "", "model-generated ViewPort histories")
	fs.Parse(args)
	tw, err := trace.Create(*out)
	if err != nil {
		return err
	}
	rng := rand.New(rand.NewSource(*seed))
	hists, ops := 0, 0
	samples := []string{}
	if *beh != "" {
		f, err := os.Open(*beh)
		if err != nil {
			return err
		}
		sc := bufio.NewScanner(f)
		sc.Buffer(make([]byte, 1<<20), 1<<26)
		for sc.Scan() {
			var h []vpOp
			if err := json.Unmarshal(sc.Bytes(), &h); err != nil {
				return err
			}
			runViewPort(tw, 3, 3, h, 3)
			hists++
			ops += len(h)
		}
		f.Close()
	}
	for i := 0; i < *nvp; i++ {
		pw, ph := 1+rng.Intn(30), 1+rng.Intn(15)
		var h []vpOp
		n := 3 + rng.Intn(12)
		c := func() int { return rng.Intn(40) - 3 }
		for k := 0; k < n; k++ {
			switch rng.Intn(11) {
			case 10:
				h = append(h, vpOp{Op: "Reset"})
			case 0:
				h = append(h, vpOp{Op: "ScrollUp", N: rng.Intn(16) - 4})
			case 1:
				h = append(h, vpOp{Op: "ScrollDown", N: rng.Intn(16) - 4})
			case 2:
				h = append(h, vpOp{Op: "ScrollLeft", N: rng.Intn(16) - 4})
			case 3:
				h = append(h, vpOp{Op: "ScrollRight", N: rng.Intn(16) - 4})
			case 4:
				h = append(h, vpOp{Op: "Center", X: c(), Y: c()})
			case 5:
				h = append(h, vpOp{Op: "MakeVisible", X: c(), Y: c()})
			case 6:
				h = append(h, vpOp{Op: "SetContent", X: c(), Y: c()})
			case 7:
				h = append(h, vpOp{Op: "SetSize", W: rng.Intn(20), H: rng.Intn(12)})
			case 8:
				h = append(h, vpOp{Op: "SetContentSize", W: rng.Intn(40), H: rng.Intn(30), Locked: rng.Intn(2) == 0})
			default:
				h = append(h, vpOp{Op: "Resize", X: rng.Intn(pw + 2), Y: rng.Intn(ph + 2), W: rng.Intn(pw+6) - 4, H: rng.Intn(ph+6) - 4})
			}
		}
		runViewPort(tw, pw, ph, h, 12)
		hists++
		ops += len(h)
		if len(samples) < 2 {
			b, _ := json.Marshal(h)
			samples = append(samples, string(b))
		}
	}
	for i := 0; i < *nlay; i++ {
		n := 4 + rng.Intn(14)
		runLayout(tw, rng, n)
		hists++
		ops += n
	}
	if err := tw.Close(); err != nil {
		return err
	}
	sum, _ := json.Marshal(map[string]interface{}{"histories": hists, "events": tw.N, "ops": ops, "distinct": hists, "samples": samples})
	fmt.Println(string(sum))
	return nil
}

// vhbare is a harness binary that does NOT link github.com/gdamore/tcell/v2/encoding: only the character sets tcell
// itself always registers are available (UTF-8 and US-ASCII with their aliases).  It runs Init under locale settings
// that name those, types some text and logs what arrives (C11: the locale's character set).
package main

import (
	"fmt"
	"os"
	"time"

	"github.com/gdamore/tcell/v2"
	"github.com/gdamore/tcell/v2/terminfo"
	_ "github.com/gdamore/tcell/v2/terminfo/x/xterm"

	"verifharness/faketty"
	"verifharness/trace"
)

func main() {
	if len(os.Args) < 2 {
		fmt.Fprintln(os.Stderr, "usage: vhbare <trace file>")
		os.Exit(2)
	}
	tw, err := trace.Create(os.Args[1])
	if err != nil {
		fmt.Fprintln(os.Stderr, err)
		os.Exit(2)
	}
	tw.Emit(trace.Ev{"ev": "Reset"})
	tw.Emit(trace.Ev{"ev": "Config", "term": "xterm-256color", "mode": "text", "cs": "locale", "paste": true, "kRune": int(tcell.KeyRune)})
	type env struct{ all, ctype, lang string }
	cases := []env{{"en_US.UTF-8", "", ""}, {"en_US.utf8", "", ""}, {"C.utf8", "", ""}, {"C.UTF8", "", ""}, {"de_DE.utf8@euro", "", ""},
		{"", "en_US.utf8", "C"}, {"", "", "ja_JP.UTF8"}, {"en_US.US-ASCII", "", ""}, {"en_US.ASCII", "", ""}, {"en_US.ISO646", "", ""},
		{"en_US.iso646", "", ""}, {"C", "", ""}, {"POSIX", "", ""}, {"", "", ""}}
	n := 0
	for _, c := range cases {
		os.Setenv("LC_ALL", c.all)
		os.Setenv("LC_CTYPE", c.ctype)
		os.Setenv("LANG", c.lang)
		ti, err := terminfo.LookupTerminfo("xterm-256color")
		if err != nil {
			fmt.Fprintln(os.Stderr, err)
			os.Exit(2)
		}
		cp := *ti
		tty := faketty.New(20, 5)
		s, err := tcell.NewTerminfoScreenFromTtyTerminfo(tty, &cp)
		if err != nil {
			fmt.Fprintln(os.Stderr, err)
			os.Exit(2)
		}
		e := trace.Ev{"ev": "Locale", "lc_all": trace.Str(c.all), "lc_ctype": trace.Str(c.ctype), "lang": trace.Str(c.lang),
			"charset": []int{}, "initerr": "", "src": []int{}, "got": []int{}, "registered": false, "always": true}
		if err := s.Init(); err != nil {
			e["initerr"] = err.Error()
			tw.Emit(e)
			n++
			continue
		}
		cs := s.CharacterSet()
		e["charset"] = trace.Str(cs)
		e["registered"] = true
		src := []rune{'a', 'z'}
		in := []byte("az")
		if enc := tcell.GetEncoding(cs); enc != nil {
			if b, err := enc.NewEncoder().Bytes([]byte("é")); err == nil && len(b) > 0 && b[0] != 0x1a && b[0] != '?' {
				src = append(src, 0xe9)
				in = append(in, b...)
			}
		}
		for k := 0; k < 16 && s.HasPendingEvent(); k++ { // bounded, and never stuck in a poll (C05 is checked elsewhere)
			got := make(chan struct{})
			go func() { s.PollEvent(); close(got) }()
			select {
			case <-got:
			case <-time.After(2 * time.Second):
				s.PostEvent(tcell.NewEventInterrupt(nil))
				<-got
				k = 16
			}
		}
		tty.Inject(in)
		var got []rune
		evc := make(chan tcell.Event, 16)
		go func() {
			for {
				ev := s.PollEvent()
				if ev == nil {
					close(evc)
					return
				}
				evc <- ev
			}
		}()
		deadline := time.After(2 * time.Second)
	collect:
		for len(got) < len(src) {
			select {
			case ev, ok := <-evc:
				if !ok {
					break collect
				}
				if k, ok := ev.(*tcell.EventKey); ok && k.Key() == tcell.KeyRune {
					got = append(got, k.Rune())
				}
			case <-deadline:
				break collect
			}
		}
		e["src"], e["got"] = trace.Runes(src), trace.Runes(got)
		s.Fini()
		tw.Emit(e)
		n++
	}
	if err := tw.Close(); err != nil {
		fmt.Fprintln(os.Stderr, err)
		os.Exit(2)
	}
	fmt.Printf("{\"events\":%d,\"histories\":%d}\n", tw.N, n)
}

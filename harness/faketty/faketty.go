// Package faketty is a tcell.Tty that records every call made on it, in order,
// and lets the harness inject input, change the window size and fire the resize
// callback.  It is independent of the repository's own test doubles.
package faketty

import (
	"sync"

	"github.com/gdamore/tcell/v2"
)

// Call is one recorded Tty call.
type Call struct {
	Seq  int
	Name string // Start Stop Drain Close NotifyResize NotifyResizeNil WindowSize Read Write
	Data []byte // Write payload
}

// Tty is the fake terminal device.
type Tty struct {
	mu      sync.Mutex
	cond    *sync.Cond
	w, h    int
	cb      func()
	calls   []Call
	seq     int
	in      chan []byte
	drain   chan struct{}
	readErr error
	pending []byte
	started bool
	closed  bool
	nwrites int
	// ReadHook, when set, is called (without the lock) each time Read is entered.
	ReadHook func()
}

// New creates a fake tty of the given size.
func New(w, h int) *Tty {
	t := &Tty{w: w, h: h, in: make(chan []byte, 1024), drain: make(chan struct{})}
	t.cond = sync.NewCond(&t.mu)
	return t
}

func (t *Tty) rec(name string, data []byte) {
	t.seq++
	t.calls = append(t.calls, Call{Seq: t.seq, Name: name, Data: data})
	if name == "Write" {
		t.nwrites++
	}
	t.cond.Broadcast()
}

func (t *Tty) Start() error {
	t.mu.Lock()
	defer t.mu.Unlock()
	t.rec("Start", nil)
	t.started = true
	t.drain = make(chan struct{})
	return nil
}

func (t *Tty) Stop() error {
	t.mu.Lock()
	defer t.mu.Unlock()
	t.rec("Stop", nil)
	t.started = false
	return nil
}

func (t *Tty) Drain() error {
	t.mu.Lock()
	defer t.mu.Unlock()
	t.rec("Drain", nil)
	select {
	case <-t.drain:
	default:
		close(t.drain)
	}
	return nil
}

func (t *Tty) Close() error {
	t.mu.Lock()
	defer t.mu.Unlock()
	t.rec("Close", nil)
	t.closed = true
	return nil
}

func (t *Tty) NotifyResize(cb func()) {
	t.mu.Lock()
	defer t.mu.Unlock()
	if cb == nil {
		t.rec("NotifyResizeNil", nil)
	} else {
		t.rec("NotifyResize", nil)
	}
	t.cb = cb
}

func (t *Tty) WindowSize() (tcell.WindowSize, error) {
	t.mu.Lock()
	defer t.mu.Unlock()
	return tcell.WindowSize{Width: t.w, Height: t.h}, nil
}

// Read blocks until input is injected, the tty is drained, or a read error is set.
func (t *Tty) Read(b []byte) (int, error) {
	if h := t.ReadHook; h != nil {
		h()
	}
	for {
		t.mu.Lock()
		t.rec("Read", nil)
		if e := t.readErr; e != nil {
			t.readErr = nil
			t.mu.Unlock()
			return 0, e
		}
		if len(t.pending) > 0 { // the rest of an injected chunk that was longer than the reader's buffer
			n := copy(b, t.pending)
			t.pending = t.pending[n:]
			t.mu.Unlock()
			return n, nil
		}
		drain := t.drain
		t.mu.Unlock()
		select {
		case chunk := <-t.in:
			if chunk == nil {
				continue // wake-up for a read error (delivered once, above)
			}
			n := copy(b, chunk)
			if n < len(chunk) {
				t.mu.Lock()
				t.pending = append(t.pending, chunk[n:]...)
				t.mu.Unlock()
			}
			return n, nil
		case <-drain:
			return 0, nil
		}
	}
}

func (t *Tty) Write(b []byte) (int, error) {
	t.mu.Lock()
	defer t.mu.Unlock()
	t.rec("Write", append([]byte(nil), b...))
	return len(b), nil
}

// Inject queues one input chunk; a Read delivers as much of it as its buffer holds, later Reads the rest.
func (t *Tty) Inject(b []byte) { t.in <- append([]byte{}, b...) }

// FailRead makes the pending or next Read return err.
func (t *Tty) FailRead(err error) {
	t.mu.Lock()
	t.readErr = err
	t.mu.Unlock()
	t.in <- nil
}

// SetSize changes the reported window size; fire also invokes the resize callback, if any.
func (t *Tty) SetSize(w, h int, fire bool) bool {
	t.mu.Lock()
	t.w, t.h = w, h
	cb := t.cb
	t.mu.Unlock()
	if fire && cb != nil {
		cb()
		return true
	}
	return false
}

// Mark returns the current length of the call log.
func (t *Tty) Mark() int {
	t.mu.Lock()
	defer t.mu.Unlock()
	return len(t.calls)
}

// Since returns the calls recorded after a mark (Read and WindowSize omitted).
func (t *Tty) Since(mark int) []Call {
	t.mu.Lock()
	defer t.mu.Unlock()
	var r []Call
	for _, c := range t.calls[mark:] {
		if c.Name == "Read" || c.Name == "WindowSize" {
			continue
		}
		r = append(r, c)
	}
	return r
}

// Writes returns the number of Write calls so far.
func (t *Tty) Writes() int {
	t.mu.Lock()
	defer t.mu.Unlock()
	return t.nwrites
}

// WaitWrites waits until at least n Write calls were made or the deadline passes (in
// units of cond waits bounded by the caller's timer goroutine); returns success.
func (t *Tty) WaitWrites(n int, done <-chan struct{}) bool {
	fin := make(chan struct{})
	defer close(fin)
	go func() {
		select {
		case <-done:
			t.mu.Lock()
			t.cond.Broadcast()
			t.mu.Unlock()
		case <-fin:
		}
	}()
	t.mu.Lock()
	defer t.mu.Unlock()
	for t.nwrites < n {
		select {
		case <-done:
			return false
		default:
		}
		t.cond.Wait()
	}
	return true
}

// HasCallback reports whether a resize callback is registered.
func (t *Tty) HasCallback() bool {
	t.mu.Lock()
	defer t.mu.Unlock()
	return t.cb != nil
}

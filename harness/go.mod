module verifharness

go 1.21

require (
	github.com/gdamore/tcell/v2 v2.0.0
	github.com/mattn/go-runewidth v0.0.16
	golang.org/x/sys v0.29.0
	golang.org/x/text v0.21.0
)

require (
	github.com/gdamore/encoding v1.0.1 // indirect
	github.com/lucasb-eyer/go-colorful v1.2.0 // indirect
	github.com/rivo/uniseg v0.4.3 // indirect
	golang.org/x/term v0.28.0 // indirect
)

replace github.com/gdamore/tcell/v2 => /repo

// Package lab is the harness's own CIE76 (CIELAB delta-E) implementation and the
// xterm 256-colour palette by formula.  It is written from the CIE definitions
// (sRGB companding, D65 white point) and shares no code with tcell or go-colorful.
package lab

import "math"

var ansi16 = [16]int{
	0x000000, 0x800000, 0x008000, 0x808000, 0x000080, 0x800080, 0x008080, 0xc0c0c0,
	0x808080, 0xff0000, 0x00ff00, 0xffff00, 0x0000ff, 0xff00ff, 0x00ffff, 0xffffff,
}

// XtermRGB returns the 24-bit value of xterm palette entry i (0..255).
func XtermRGB(i int) int {
	switch {
	case i < 16:
		return ansi16[i]
	case i < 232:
		i -= 16
		lv := [6]int{0, 95, 135, 175, 215, 255}
		return lv[i/36]<<16 | lv[(i/6)%6]<<8 | lv[i%6]
	default:
		g := 8 + 10*(i-232)
		return g<<16 | g<<8 | g
	}
}

func lin(c float64) float64 {
	if c <= 0.04045 {
		return c / 12.92
	}
	return math.Pow((c+0.055)/1.055, 2.4)
}

func f(t float64) float64 {
	if t > 216.0/24389.0 {
		return math.Cbrt(t)
	}
	return (24389.0/27.0*t + 16) / 116
}

// Lab converts a 24-bit sRGB value to CIELAB (D65), L in 0..100.
func Lab(rgb int) (l, a, b float64) {
	r := lin(float64(rgb>>16&0xff) / 255)
	g := lin(float64(rgb>>8&0xff) / 255)
	bl := lin(float64(rgb&0xff) / 255)
	x := 0.4124564*r + 0.3575761*g + 0.1804375*bl
	y := 0.2126729*r + 0.7151522*g + 0.0721750*bl
	z := 0.0193339*r + 0.1191920*g + 0.9503041*bl
	fx, fy, fz := f(x/0.95047), f(y/1.0), f(z/1.08883)
	return 116*fy - 16, 500 * (fx - fy), 200 * (fy - fz)
}

// Dist is the CIE76 distance between two sRGB values.
func Dist(c1, c2 int) float64 {
	l1, a1, b1 := Lab(c1)
	l2, a2, b2 := Lab(c2)
	return math.Sqrt((l1-l2)*(l1-l2) + (a1-a2)*(a1-a2) + (b1-b2)*(b1-b2))
}

// Nearest returns every index of pal (24-bit values) whose distance to rgb is within
// tol (absolute, in delta-E units) of the minimum - ties are all acceptable answers.
func Nearest(rgb int, pal []int, tol float64) []int {
	best := math.Inf(1)
	ds := make([]float64, len(pal))
	for i, p := range pal {
		ds[i] = Dist(rgb, p)
		if ds[i] < best {
			best = ds[i]
		}
	}
	r := []int{}
	for i, d := range ds {
		if d <= best+tol {
			r = append(r, i)
		}
	}
	return r
}

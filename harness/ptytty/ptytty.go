//go:build linux

// Package ptytty opens a pseudo-terminal pair so that tcell's real device Tty (tty_unix.go:
// termios handling, SIGWINCH, read deadlines) can be driven by the harness: the harness plays
// the terminal on the master side, tcell opens the slave by path.
package ptytty

import (
	"fmt"
	"os"
	"sync"
	"syscall"

	"golang.org/x/sys/unix"

	"github.com/gdamore/tcell/v2"
)

type Pty struct {
	Master    *os.File
	SlavePath string
	hold      *os.File // a slave descriptor of our own: the master does not see a hang-up while tcell reopens the device

	mfd    int          // the master's descriptor number (ioctls)
	cmu    sync.RWMutex // closing against the calls that use the master
	mu     sync.Mutex
	out    []byte
	closed bool
	done   chan struct{}
}

// Open creates the pair, sets the window size and starts collecting what the slave side writes.
func Open(w, h int) (*Pty, error) {
	// non-blocking, so that the runtime poller serves the descriptor and Close interrupts a pending Read
	mfd, err := unix.Open("/dev/ptmx", unix.O_RDWR|unix.O_NOCTTY|unix.O_NONBLOCK|unix.O_CLOEXEC, 0)
	if err != nil {
		return nil, err
	}
	m := os.NewFile(uintptr(mfd), "/dev/ptmx")
	if err := unix.IoctlSetPointerInt(int(m.Fd()), unix.TIOCSPTLCK, 0); err != nil {
		m.Close()
		return nil, fmt.Errorf("unlockpt: %v", err)
	}
	n, err := unix.IoctlGetInt(int(m.Fd()), unix.TIOCGPTN)
	if err != nil {
		m.Close()
		return nil, fmt.Errorf("ptsname: %v", err)
	}
	p := &Pty{Master: m, mfd: mfd, SlavePath: fmt.Sprintf("/dev/pts/%d", n), done: make(chan struct{})}
	if p.hold, err = os.OpenFile(p.SlavePath, os.O_RDWR|syscall.O_NOCTTY, 0); err != nil {
		m.Close()
		return nil, err
	}
	p.SetSize(w, h, false)
	go p.collect()
	return p, nil
}

func (p *Pty) collect() {
	defer close(p.done)
	buf := make([]byte, 65536)
	for {
		n, err := p.Master.Read(buf)
		if n > 0 {
			p.mu.Lock()
			p.out = append(p.out, buf[:n]...)
			p.mu.Unlock()
		}
		if err != nil {
			return
		}
	}
}

// Tty opens tcell's device Tty on the slave.
func (p *Pty) Tty() (tcell.Tty, error) { return tcell.NewDevTtyFromDev(p.SlavePath) }

// Inject types bytes at the terminal.
func (p *Pty) Inject(b []byte) {
	p.cmu.RLock()
	defer p.cmu.RUnlock()
	if !p.closed {
		p.Master.Write(b)
	}
}

// SetSize changes the window size; fire also raises SIGWINCH in this process (the kernel signals
// only the foreground process group of a controlling terminal, which the pair is not).
func (p *Pty) SetSize(w, h int, fire bool) bool {
	p.cmu.RLock()
	if !p.closed {
		unix.IoctlSetWinsize(p.mfd, unix.TIOCSWINSZ, &unix.Winsize{Row: uint16(h), Col: uint16(w)})
	}
	p.cmu.RUnlock()
	if fire {
		syscall.Kill(os.Getpid(), syscall.SIGWINCH)
	}
	return true
}

// FailRead hangs the terminal up: reads and writes on the slave fail from now on.
func (p *Pty) FailRead(error) {
	p.cmu.Lock()
	if !p.closed {
		p.closed = true
		p.hold.Close()
		p.Master.Close()
	}
	p.cmu.Unlock()
}

// Termios returns the line settings of the pair (the slave's, as seen from the master).
func (p *Pty) Termios() (*unix.Termios, error) {
	p.cmu.RLock()
	defer p.cmu.RUnlock()
	if p.closed {
		return nil, os.ErrClosed
	}
	return unix.IoctlGetTermios(p.mfd, unix.TCGETS)
}

// SetTermios changes the line settings of the pair.
func (p *Pty) SetTermios(t *unix.Termios) error {
	p.cmu.RLock()
	defer p.cmu.RUnlock()
	if p.closed {
		return os.ErrClosed
	}
	return unix.IoctlSetTermios(p.mfd, unix.TCSETS, t)
}

// Output returns a copy of everything the slave side has written so far.
func (p *Pty) Output() []byte {
	p.mu.Lock()
	defer p.mu.Unlock()
	return append([]byte{}, p.out...)
}

// Close releases the pair.
func (p *Pty) Close() {
	p.FailRead(nil)
	<-p.done
}

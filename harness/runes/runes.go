// Package runes is the harness's independent rune oracle: width classes come
// from the Unicode East Asian Width property (golang.org/x/text/width) and the
// general categories of Go's unicode package - not from go-runewidth, which is
// what the code under test uses.
package runes

import (
	"unicode"

	"golang.org/x/text/width"
)

// Class returns the width class the property statements assign to r:
//
//	0  zero-width, control, format or invalid code point (shown as a blank)
//	1  narrow
//	2  wide (East Asian Wide / Fullwidth)
//	-1 no independent agreement (ambiguous, unassigned, private use, emoji that
//	   are not East-Asian-Wide, conjoining jamo): the specs leave these unconstrained
func Class(r rune) int {
	if r < 0 || r > unicode.MaxRune || (r >= 0xD800 && r <= 0xDFFF) {
		return 0
	}
	if r < 0x20 || (r >= 0x7F && r < 0xA0) {
		return 0
	}
	if unicode.Is(unicode.Prepended_Concatenation_Mark, r) {
		return -1 // format characters with a visible glyph (Arabic number signs ...)
	}
	if unicode.In(r, unicode.Mn, unicode.Me, unicode.Cf, unicode.Zl, unicode.Zp) {
		return 0
	}
	if unicode.Is(unicode.Mc, r) {
		return -1 // spacing marks: some width tables count them as combining
	}
	if unicode.In(r, unicode.Co, unicode.Cs) {
		return -1
	}
	if !unicode.IsGraphic(r) {
		return -1 // unassigned
	}
	if r >= 0x1160 && r <= 0x11FF { // conjoining jamo vowels / finals
		return -1
	}
	switch width.LookupRune(r).Kind() {
	case width.EastAsianWide, width.EastAsianFullwidth:
		return 2
	case width.EastAsianAmbiguous:
		return -1
	}
	// emoji blocks whose East Asian Width is Neutral are rendered wide by many terminals
	if (r >= 0x1F000 && r <= 0x1FAFF) || (r >= 0x2600 && r <= 0x27BF) || (r >= 0x2B00 && r <= 0x2BFF) ||
		(r >= 0x2190 && r <= 0x21FF) || (r >= 0x2300 && r <= 0x23FF) || r == 0x3030 || r == 0x303D {
		return -1
	}
	return 1
}

// Forbidden reports whether r, as primary cell content, must be displayed as a
// blank (C09): C0, DEL, C1, zero-width / bidi / format characters, marks,
// surrogates and values outside the code space.
func Forbidden(r rune) bool { return Class(r) == 0 }

// Category returns a short general-category name for diagnostics.
func Category(r rune) string {
	for name, t := range unicode.Categories {
		if len(name) == 2 && unicode.Is(t, r) {
			return name
		}
	}
	return "Cn"
}

// ClassScreen is Class for a terminal in a non-CJK UTF-8 locale: East-Asian-ambiguous
// runes (box drawing, Latin-1 letters such as U+00E9, ...) are narrow there.
func ClassScreen(r rune) int {
	c := Class(r)
	if c == -1 && r >= 0 && r <= unicode.MaxRune && width.LookupRune(r).Kind() == width.EastAsianAmbiguous &&
		unicode.IsGraphic(r) && !unicode.In(r, unicode.Co, unicode.Mc) {
		return 1
	}
	return c
}

// Package tcx holds helpers that translate tcell values into the encodings of
// the TLA+ specifications.
package tcx

import (
	"math/rand"
	"reflect"

	"github.com/gdamore/tcell/v2"
)

// Color encodes a tcell.Color as <<kind, value>>:
// 0 default, 1 palette (valid, not RGB), 2 rgb, 3 ColorReset, 4 ColorNone, 5 anything else.
func Color(c tcell.Color) []int {
	switch {
	case c == tcell.ColorDefault:
		return []int{0, 0}
	case c == tcell.ColorReset:
		return []int{3, 0}
	case c == tcell.ColorNone:
		return []int{4, 1}
	case c&tcell.ColorSpecial != 0:
		return []int{5, int(c & 0xffffff)}
	case c&tcell.ColorValid != 0 && c&tcell.ColorIsRGB != 0:
		return []int{2, int(c & 0xffffff)}
	case c&tcell.ColorValid != 0:
		return []int{1, int(c & 0xffffff)}
	}
	return []int{5, int(c & 0xffffff)}
}

func field(v reflect.Value, name string) reflect.Value {
	f := v.FieldByName(name)
	if !f.IsValid() {
		panic("tcell.Style has no field " + name + " (harness needs updating)")
	}
	return f
}

// Style encodes a Style as <<fg, bg, attrs, ulstyle, ulcolour, url, urlid>>.
// The fields are read by reflection because Style has no accessor for all of them.
func Style(st tcell.Style) []interface{} {
	v := reflect.ValueOf(st)
	fg := tcell.Color(field(v, "fg").Uint())
	bg := tcell.Color(field(v, "bg").Uint())
	uc := tcell.Color(field(v, "ulColor").Uint())
	us := int(field(v, "ulStyle").Int())
	at := int(field(v, "attrs").Uint())
	url := field(v, "url").String()
	id := field(v, "urlId").String()
	return []interface{}{Color(fg), Color(bg), at, us, Color(uc), bytesOf(url), bytesOf(id)}
}

func bytesOf(s string) []int {
	r := make([]int, len(s))
	for i := 0; i < len(s); i++ {
		r[i] = int(s[i])
	}
	return r
}

// RandColor picks a colour: default, palette (low and high), RGB, reset, none.
func RandColor(rng *rand.Rand, allowNone bool) tcell.Color {
	switch k := rng.Intn(12); {
	case k < 3:
		return tcell.ColorDefault
	case k < 6:
		return tcell.PaletteColor(rng.Intn(16))
	case k < 8:
		return tcell.PaletteColor(rng.Intn(256))
	case k < 10:
		return tcell.NewRGBColor(int32(rng.Intn(256)), int32(rng.Intn(256)), int32(rng.Intn(256)))
	case k == 10:
		return tcell.ColorReset
	default:
		if allowNone {
			return tcell.ColorNone
		}
		return tcell.ColorDefault
	}
}

// RandStyle builds a random style; rich selects underline styles/colours and URLs too.
func RandStyle(rng *rand.Rand, rich, allowNone bool) tcell.Style {
	if rng.Intn(4) == 0 {
		return tcell.StyleDefault
	}
	st := tcell.StyleDefault.Foreground(RandColor(rng, allowNone)).Background(RandColor(rng, allowNone))
	if rng.Intn(3) == 0 {
		st = st.Bold(true)
	}
	if rng.Intn(5) == 0 {
		st = st.Reverse(true)
	}
	if rng.Intn(7) == 0 {
		st = st.Italic(true)
	}
	if rng.Intn(9) == 0 {
		st = st.Dim(true)
	}
	if rng.Intn(9) == 0 {
		st = st.Blink(true)
	}
	if rng.Intn(9) == 0 {
		st = st.StrikeThrough(true)
	}
	if rich {
		if rng.Intn(4) == 0 {
			st = st.Underline(tcell.UnderlineStyle(1 + rng.Intn(5)))
			if rng.Intn(2) == 0 {
				c := RandColor(rng, false)
				st = st.Underline(c)
			}
		}
		if rng.Intn(8) == 0 {
			st = st.Url([]string{"http://a.b/", "x:y", "https://example.org/q?a=1"}[rng.Intn(3)])
			if rng.Intn(2) == 0 {
				st = st.UrlId([]string{"1", "k"}[rng.Intn(2)])
			}
		}
	}
	return st
}

// ColorFrom decodes <<kind, value>>.
func ColorFrom(kv []interface{}) tcell.Color {
	k := int(kv[0].(float64))
	v := int(kv[1].(float64))
	switch k {
	case 0:
		return tcell.ColorDefault
	case 1:
		return tcell.PaletteColor(v)
	case 2:
		return tcell.NewHexColor(int32(v))
	case 3:
		return tcell.ColorReset
	case 4:
		return tcell.ColorNone
	}
	panic("cannot build colour kind")
}

// StyleFrom decodes the tuple produced by Style (as parsed from JSON).
func StyleFrom(t []interface{}) tcell.Style {
	st := tcell.StyleDefault
	st = st.Foreground(ColorFrom(t[0].([]interface{}))).Background(ColorFrom(t[1].([]interface{})))
	at := tcell.AttrMask(int(t[2].(float64)))
	us := int(t[3].(float64))
	st = st.Attributes(at)
	if us != 0 {
		st = st.Underline(tcell.UnderlineStyle(us))
	}
	uc := ColorFrom(t[4].([]interface{}))
	if uc != tcell.ColorDefault {
		st = st.Underline(uc)
	}
	if u := t[5].([]interface{}); len(u) > 0 {
		b := make([]byte, len(u))
		for i := range u {
			b[i] = byte(u[i].(float64))
		}
		st = st.Url(string(b))
	}
	return st
}

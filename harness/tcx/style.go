// Package tcx holds helpers that translate tcell values into the encodings of
// the TLA+ specifications.
package tcx

import (
	"math/rand"
	"reflect"
	"sync"

	"github.com/gdamore/tcell/v2"
)

// Color encodes a tcell.Color as <<kind, value>>:
// 0 default, 1 palette (valid, not RGB), 2 rgb, 3 ColorReset, 4 ColorNone, 5 anything else.
func Color(c tcell.Color) []int {
	switch {
	case c == tcell.ColorDefault:
		return []int{0, 0}
	case c == tcell.ColorReset:
		return []int{3, 0}
	case c == tcell.ColorNone:
		return []int{4, 1}
	case c&tcell.ColorSpecial != 0:
		return []int{5, int(c & 0xffffff)}
	case c&tcell.ColorValid != 0 && c&tcell.ColorIsRGB != 0:
		return []int{2, int(c & 0xffffff)}
	case c&tcell.ColorValid != 0:
		return []int{1, int(c & 0xffffff)}
	}
	return []int{5, int(c & 0xffffff)}
}

func field(v reflect.Value, name string) reflect.Value {
	f := v.FieldByName(name)
	if !f.IsValid() {
		panic("tcell.Style has no field " + name + " (harness needs updating)")
	}
	return f
}

// Style encodes a Style as <<fg, bg, attrs, ulstyle, ulcolour, url, urlid>>.
// The fields are read by reflection because Style has no accessor for all of them.
func Style(st tcell.Style) []interface{} {
	intentMu.Lock()
	t, ok := intents[st]
	intentMu.Unlock()
	if ok {
		return t
	}
	if st == tcell.StyleDefault {
		return intent{}.tuple()
	}
	v := reflect.ValueOf(st)
	fg := tcell.Color(field(v, "fg").Uint())
	bg := tcell.Color(field(v, "bg").Uint())
	uc := tcell.Color(field(v, "ulColor").Uint())
	us := int(field(v, "ulStyle").Int())
	at := int(field(v, "attrs").Uint())
	url := field(v, "url").String()
	id := field(v, "urlId").String()
	return []interface{}{Color(fg), Color(bg), at, us, Color(uc), bytesOf(url), bytesOf(id)}
}

func bytesOf(s string) []int {
	r := make([]int, len(s))
	for i := 0; i < len(s); i++ {
		r[i] = int(s[i])
	}
	return r
}

// RandColor picks a colour: default, palette (low and high), RGB, reset, none.
func RandColor(rng *rand.Rand, allowNone bool) tcell.Color {
	switch k := rng.Intn(12); {
	case k < 3:
		return tcell.ColorDefault
	case k < 6:
		return tcell.PaletteColor(rng.Intn(16))
	case k < 8:
		return tcell.PaletteColor(rng.Intn(256))
	case k < 10:
		return tcell.NewRGBColor(int32(rng.Intn(256)), int32(rng.Intn(256)), int32(rng.Intn(256)))
	case k == 10:
		return tcell.ColorReset
	default:
		if allowNone {
			return tcell.ColorNone
		}
		return tcell.ColorDefault
	}
}

// intent is what a sequence of Style builder calls means according to their documentation, tracked next to the
// Style value they produce.  Styles made by RandStyle are logged by their intent, not by what the struct holds, so
// that the specifications compare the display with what the application asked for.
type intent struct {
	fg, bg, uc tcell.Color
	at, us     int
	url, id    string
}

func (n intent) tuple() []interface{} {
	return []interface{}{Color(n.fg), Color(n.bg), n.at, n.us, Color(n.uc), bytesOf(n.url), bytesOf(n.id)}
}

var (
	intentMu sync.Mutex
	intents  = map[tcell.Style][]interface{}{}
)

func remember(st tcell.Style, n intent) tcell.Style {
	intentMu.Lock()
	intents[st] = n.tuple()
	intentMu.Unlock()
	return st
}

// RandStyle builds a random style through the builder methods (setting, clearing and overriding attributes);
// rich selects underline styles/colours and URLs too.
func RandStyle(rng *rand.Rand, rich, allowNone bool) tcell.Style {
	if rng.Intn(4) == 0 {
		return tcell.StyleDefault
	}
	var n intent
	n.fg, n.bg = RandColor(rng, allowNone), RandColor(rng, allowNone)
	st := tcell.StyleDefault.Foreground(n.fg).Background(n.bg)
	if rng.Intn(6) == 0 { // background first, then an overriding foreground
		n.fg = RandColor(rng, allowNone)
		st = tcell.StyleDefault.Background(n.bg).Foreground(tcell.ColorRed).Foreground(n.fg)
	}
	type tog struct {
		bit int
		f   func(tcell.Style, bool) tcell.Style
		p   int
	}
	togs := []tog{
		{1, tcell.Style.Bold, 3}, {4, tcell.Style.Reverse, 5}, {32, tcell.Style.Italic, 7}, {16, tcell.Style.Dim, 9},
		{2, tcell.Style.Blink, 9}, {64, tcell.Style.StrikeThrough, 9},
	}
	if rng.Intn(8) == 0 { // a mask first (never the underline bit: that is Underline's business)
		n.at = []int{1, 4, 1 | 32, 2 | 16 | 64, 0}[rng.Intn(5)]
		st = st.Attributes(tcell.AttrMask(n.at))
	}
	for _, t := range togs {
		if rng.Intn(t.p) == 0 {
			n.at |= t.bit
			st = t.f(st, true)
		}
	}
	if rng.Intn(6) == 0 { // switch one off again (set or not)
		t := togs[rng.Intn(len(togs))]
		n.at &^= t.bit
		st = t.f(st, false)
	}
	if rich {
		if rng.Intn(4) == 0 {
			switch rng.Intn(4) {
			case 0:
				n.us, n.at = 1, n.at|8
				st = st.Underline(true)
			case 1: // on, then off again
				n.us, n.at = 0, n.at&^8
				st = st.Underline(tcell.UnderlineStyleCurly).Underline(false)
			default:
				n.us, n.at = 1+rng.Intn(5), n.at|8
				st = st.Underline(tcell.UnderlineStyle(n.us))
			}
			if rng.Intn(2) == 0 && n.us != 0 {
				n.uc = RandColor(rng, false)
				st = st.Underline(n.uc)
			}
		}
		if rng.Intn(8) == 0 {
			n.url = []string{"http://a.b/", "x:y", "https://example.org/q?a=1"}[rng.Intn(3)]
			st = st.Url(n.url)
			if rng.Intn(2) == 0 {
				id := []string{"1", "k"}[rng.Intn(2)]
				n.id = "id=" + id
				st = st.UrlId(id)
			}
		}
		if rng.Intn(25) == 0 { // Normal keeps the colours only
			n = intent{fg: n.fg, bg: n.bg}
			st = st.Normal()
		}
	}
	return remember(st, n)
}

// build makes the Style an intent describes, through the builder methods.
func build(n intent) tcell.Style {
	st := tcell.StyleDefault.Foreground(n.fg).Background(n.bg).Attributes(tcell.AttrMask(n.at &^ 8))
	if n.us != 0 {
		st = st.Underline(tcell.UnderlineStyle(n.us))
	}
	if n.uc != tcell.ColorDefault {
		st = st.Underline(n.uc)
	}
	if n.url != "" {
		st = st.Url(n.url)
	}
	if n.id != "" {
		st = st.UrlId(n.id[3:])
	}
	return remember(st, n)
}

// StyleVariants returns n styles for adjacent cells: the first has every component set, each next one differs from
// its predecessor in exactly one component (foreground, background, one attribute, underline style, underline
// colour, URL, URL id), chosen at random - every comparison a style cache makes is exercised by some pair.
func StyleVariants(rng *rand.Rand, n int) []tcell.Style {
	cur := intent{fg: tcell.PaletteColor(2), bg: tcell.PaletteColor(4), uc: tcell.PaletteColor(1), at: 1 | 8, us: 1, url: "x:y", id: "id=1"}
	if rng.Intn(2) == 0 {
		cur.fg, cur.uc = tcell.NewRGBColor(10, 200, 30), tcell.NewRGBColor(250, 0, 120)
	}
	flip := func(a, b tcell.Color, c tcell.Color) tcell.Color {
		if c == a {
			return b
		}
		return a
	}
	out := []tcell.Style{build(cur)}
	for len(out) < n {
		switch rng.Intn(8) {
		case 0:
			cur.fg = flip(tcell.PaletteColor(2), tcell.PaletteColor(3), cur.fg)
		case 1:
			cur.bg = flip(tcell.PaletteColor(4), tcell.PaletteColor(5), cur.bg)
		case 2:
			cur.at ^= 32
		case 3:
			cur.at ^= 1
		case 4:
			cur.us = 4 - cur.us // solid <-> curly
		case 5:
			cur.uc = flip(tcell.PaletteColor(1), tcell.PaletteColor(6), cur.uc)
		case 6:
			if cur.url == "x:y" {
				cur.url = "x:z"
			} else {
				cur.url = "x:y"
			}
		default:
			if cur.id == "id=1" {
				cur.id = "id=2"
			} else {
				cur.id = "id=1"
			}
		}
		out = append(out, build(cur))
	}
	return out
}

// ColorFrom decodes <<kind, value>>.
func ColorFrom(kv []interface{}) tcell.Color {
	k := int(kv[0].(float64))
	v := int(kv[1].(float64))
	switch k {
	case 0:
		return tcell.ColorDefault
	case 1:
		return tcell.PaletteColor(v)
	case 2:
		return tcell.NewHexColor(int32(v))
	case 3:
		return tcell.ColorReset
	case 4:
		return tcell.ColorNone
	}
	panic("cannot build colour kind")
}

// StyleFrom decodes the tuple produced by Style (as parsed from JSON).
func StyleFrom(t []interface{}) tcell.Style {
	st := tcell.StyleDefault
	st = st.Foreground(ColorFrom(t[0].([]interface{}))).Background(ColorFrom(t[1].([]interface{})))
	at := tcell.AttrMask(int(t[2].(float64)))
	us := int(t[3].(float64))
	st = st.Attributes(at)
	if us != 0 {
		st = st.Underline(tcell.UnderlineStyle(us))
	}
	uc := ColorFrom(t[4].([]interface{}))
	if uc != tcell.ColorDefault {
		st = st.Underline(uc)
	}
	if u := t[5].([]interface{}); len(u) > 0 {
		b := make([]byte, len(u))
		for i := range u {
			b[i] = byte(u[i].(float64))
		}
		st = st.Url(string(b))
	}
	return st
}

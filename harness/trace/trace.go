// Package trace writes NDJSON event logs that the TLA+ trace specifications read
// with ndJsonDeserialize.  Every value is an integer, boolean, string, array or
// object; byte strings and rune strings are written as arrays of integers
// because TLC cannot index into TLA+ strings.
package trace

import (
	"bufio"
	"encoding/json"
	"os"
)

// Ev is one event.
type Ev map[string]interface{}

// Writer appends events to a file.
type Writer struct {
	f *os.File
	w *bufio.Writer
	N int // events written
}

// Create opens (truncates) the trace file.
func Create(path string) (*Writer, error) {
	f, err := os.Create(path)
	if err != nil {
		return nil, err
	}
	return &Writer{f: f, w: bufio.NewWriterSize(f, 1<<20)}, nil
}

// Emit writes one event.
func (t *Writer) Emit(e Ev) {
	b, err := json.Marshal(e)
	if err != nil {
		panic(err)
	}
	t.w.Write(b)
	t.w.WriteByte('\n')
	t.N++
}

// Close flushes and closes the file.
func (t *Writer) Close() error {
	if err := t.w.Flush(); err != nil {
		return err
	}
	return t.f.Close()
}

// Ints converts a byte string into a JSON-friendly integer slice (never nil).
func Ints(b []byte) []int {
	r := make([]int, len(b))
	for i, c := range b {
		r[i] = int(c)
	}
	return r
}

// Str converts a string's bytes.
func Str(s string) []int { return Ints([]byte(s)) }

// Runes converts a rune slice (never nil).
func Runes(rs []rune) []int {
	r := make([]int, len(rs))
	for i, c := range rs {
		r[i] = int(c)
	}
	return r
}

//go:build js && wasm

// Command wasm is the C19 harness: it runs under Node with Go's wasm_exec_node.js, registers recording
// stand-ins for the functions of webfiles/tcell.js, drives the js/wasm screen of the repository and
// prints an NDJSON trace on stdout.  Nothing blocks or does I/O inside a js.FuncOf callback: the
// stand-ins only append to an in-memory log that the main goroutine prints at the end.
package main

import (
	"encoding/json"
	"fmt"
	"math/rand"
	"os"
	"strconv"
	"syscall/js"
	"time"

	"github.com/gdamore/tcell/v2"
)

type ev map[string]interface{}

var log []ev

func emit(e ev) { log = append(log, e) }

func colorJSON(c tcell.Color) []int {
	switch {
	case c == tcell.ColorDefault:
		return []int{0, 0}
	case c == tcell.ColorReset:
		return []int{3, 0}
	case c == tcell.ColorNone:
		return []int{4, 1}
	case c&tcell.ColorValid != 0 && c&tcell.ColorIsRGB != 0:
		return []int{2, int(c & 0xffffff)}
	case c&tcell.ColorValid != 0:
		return []int{1, int(c & 0xffffff)}
	}
	return []int{5, 0}
}

type styleSpec struct {
	fg, bg, uc tcell.Color
	attrs      tcell.AttrMask
	us         tcell.UnderlineStyle
}

func (s styleSpec) style() tcell.Style {
	st := tcell.StyleDefault.Foreground(s.fg).Background(s.bg).Attributes(s.attrs)
	if s.us != 0 {
		st = st.Underline(s.us)
		if s.uc != tcell.ColorDefault {
			st = st.Underline(s.uc)
		}
	}
	return st
}

func (s styleSpec) json() []interface{} {
	at := int(s.attrs)
	uc := colorJSON(tcell.ColorDefault)
	if s.us != 0 {
		at |= 8
		uc = colorJSON(s.uc)
	}
	return []interface{}{colorJSON(s.fg), colorJSON(s.bg), at, int(s.us), uc, []int{}, []int{}}
}

func randColor(rng *rand.Rand, none bool) tcell.Color {
	switch k := rng.Intn(10); {
	case k < 3:
		return tcell.ColorDefault
	case k < 6:
		return tcell.PaletteColor(rng.Intn(16))
	case k < 7:
		return tcell.PaletteColor(rng.Intn(256))
	case k < 9:
		return tcell.NewRGBColor(int32(rng.Intn(256)), int32(rng.Intn(256)), int32(rng.Intn(256)))
	default:
		if none {
			return tcell.ColorNone
		}
		return tcell.ColorDefault
	}
}

func randStyle(rng *rand.Rand, none bool) styleSpec {
	if rng.Intn(4) == 0 {
		return styleSpec{}
	}
	s := styleSpec{fg: randColor(rng, none), bg: randColor(rng, none)}
	for _, a := range []tcell.AttrMask{tcell.AttrBold, tcell.AttrBlink, tcell.AttrReverse, tcell.AttrDim, tcell.AttrItalic, tcell.AttrStrikeThrough} {
		if rng.Intn(5) == 0 {
			s.attrs |= a
		}
	}
	if rng.Intn(4) == 0 {
		s.us = tcell.UnderlineStyle(1 + rng.Intn(5))
		if rng.Intn(2) == 0 {
			s.uc = randColor(rng, false)
		}
	}
	return s
}

// install registers the recording stand-ins for tcell.js.
func install() {
	g := js.Global()
	g.Set("drawCell", js.FuncOf(func(this js.Value, a []js.Value) interface{} {
		rs := []int{}
		for _, r := range a[2].String() {
			rs = append(rs, int(r))
		}
		emit(ev{"ev": "js", "f": "drawCell", "x": a[0].Int(), "y": a[1].Int(), "s": rs, "fg": a[3].Int(), "bg": a[4].Int(),
			"at": a[5].Int(), "us": a[6].Int(), "uc": a[7].Int()})
		return nil
	}))
	g.Set("clearScreen", js.FuncOf(func(this js.Value, a []js.Value) interface{} {
		emit(ev{"ev": "js", "f": "clearScreen", "fg": a[0].Int(), "bg": a[1].Int()})
		return nil
	}))
	for _, name := range []string{"show", "beep"} {
		name := name
		g.Set(name, js.FuncOf(func(this js.Value, a []js.Value) interface{} { emit(ev{"ev": "js", "f": name}); return nil }))
	}
	g.Set("showCursor", js.FuncOf(func(this js.Value, a []js.Value) interface{} {
		emit(ev{"ev": "js", "f": "showCursor", "x": a[0].Int(), "y": a[1].Int()})
		return nil
	}))
	g.Set("setCursorStyle", js.FuncOf(func(this js.Value, a []js.Value) interface{} {
		emit(ev{"ev": "js", "f": "setCursorStyle", "cls": a[0].String(), "col": a[1].String()})
		return nil
	}))
	g.Set("resize", js.FuncOf(func(this js.Value, a []js.Value) interface{} {
		emit(ev{"ev": "js", "f": "resize", "w": a[0].Int(), "h": a[1].Int()})
		return nil
	}))
	g.Set("setTitle", js.FuncOf(func(this js.Value, a []js.Value) interface{} {
		emit(ev{"ev": "js", "f": "setTitle", "s": a[0].String()})
		return nil
	}))
}

func evJSON(e tcell.Event) []interface{} {
	switch v := e.(type) {
	case *tcell.EventKey:
		return []interface{}{"key", int(v.Key()), int(v.Rune()), int(v.Modifiers())}
	case *tcell.EventMouse:
		x, y := v.Position()
		return []interface{}{"mouse", x, y, int(v.Buttons()), int(v.Modifiers())}
	case *tcell.EventPaste:
		if v.Start() {
			return []interface{}{"paste", 1}
		}
		return []interface{}{"paste", 0}
	case *tcell.EventFocus:
		if v.Focused {
			return []interface{}{"focus", 1}
		}
		return []interface{}{"focus", 0}
	case *tcell.EventResize:
		w, h := v.Size()
		return []interface{}{"resize", w, h}
	}
	return []interface{}{"other"}
}

func drain(s tcell.Screen) []interface{} {
	out := []interface{}{}
	for k := 0; k < 64 && s.HasPendingEvent(); k++ {
		e := s.PollEvent()
		if e == nil {
			break
		}
		out = append(out, evJSON(e))
	}
	return out
}

var wideSet = map[rune]bool{0x4e16: true, 0x754c: true, 0xac00: true, 0xff21: true}
var zeroSet = map[rune]bool{0: true, 7: true, 0x7f: true, 0x200b: true, 0x301: true}

func wc(r rune) int {
	if wideSet[r] {
		return 2
	}
	if zeroSet[r] {
		return 0
	}
	return 1
}

func drawHistory(rng *rand.Rand, nops int) error {
	s, err := tcell.NewTerminfoScreen()
	if err != nil {
		return err
	}
	if err := s.Init(); err != nil {
		return err
	}
	emit(ev{"ev": "Reset"})
	w, h := 2+rng.Intn(7), 1+rng.Intn(3)
	s.SetSize(w, h)
	emit(ev{"ev": "SetSize", "w": w, "h": h})
	drain(s)
	runesl := []rune{'a', 'b', 'Z', '%', ' ', 0xe9, 0x3b1, 0x2500, 0x4e16, 0x754c, 0xac00, 0xff21, 0, 7, 0x7f, 0x200b, 0x301}
	for i := 0; i < nops; i++ {
		switch k := rng.Intn(21); {
		case k == 20:
			// a fill, a wide rune over it, the same fill again - each shown: the covered column comes back
			st := randStyle(rng, true)
			r := []rune{' ', 'x'}[rng.Intn(2)]
			show := func() {
				emit(ev{"ev": "Show"})
				s.Show()
				emit(ev{"ev": "ShowEnd"})
			}
			fill := func() {
				s.Fill(r, st.style())
				emit(ev{"ev": "Fill", "cp": int(r), "wc": wc(r), "st": st.json()})
			}
			fill()
			show()
			if w >= 2 {
				x, y := rng.Intn(w-1), rng.Intn(h)
				wr := []rune{0x4e16, 0xac00, 0xff21}[rng.Intn(3)]
				st2 := randStyle(rng, true)
				s.SetContent(x, y, wr, nil, st2.style())
				emit(ev{"ev": "SetContent", "x": x, "y": y, "cp": int(wr), "wc": wc(wr), "comb": []int{}, "st": st2.json()})
				show()
			}
			fill()
			show()
		case k < 11:
			x, y := rng.Intn(w+2)-1, rng.Intn(h+2)-1
			r := runesl[rng.Intn(len(runesl))]
			var comb []rune
			if rng.Intn(6) == 0 {
				comb = []rune{0x301}
			}
			st := randStyle(rng, true)
			s.SetContent(x, y, r, comb, st.style())
			cj := []int{}
			for _, c := range comb {
				cj = append(cj, int(c))
			}
			emit(ev{"ev": "SetContent", "x": x, "y": y, "cp": int(r), "wc": wc(r), "comb": cj, "st": st.json()})
		case k < 12:
			st := randStyle(rng, true)
			r := []rune{' ', 'x', 0}[rng.Intn(3)]
			s.Fill(r, st.style())
			emit(ev{"ev": "Fill", "cp": int(r), "wc": wc(r), "st": st.json()})
		case k < 13:
			st := randStyle(rng, false)
			s.SetStyle(st.style())
			emit(ev{"ev": "SetStyle", "st": st.json()})
		case k < 17:
			emit(ev{"ev": "Show"})
			s.Show()
			emit(ev{"ev": "ShowEnd"})
		case k < 18:
			emit(ev{"ev": "Sync"})
			s.Sync()
			emit(ev{"ev": "ShowEnd"})
		case k < 19:
			w, h = 2+rng.Intn(7), 1+rng.Intn(3)
			s.SetSize(w, h)
			emit(ev{"ev": "SetSize", "w": w, "h": h})
			emit(ev{"ev": "Drain", "evs": drain(s)})
		default:
			x, y := rng.Intn(w), rng.Intn(h)
			s.ShowCursor(x, y)
			emit(ev{"ev": "ShowCursor", "x": x, "y": y})
		}
	}
	emit(ev{"ev": "Show"})
	s.Show()
	emit(ev{"ev": "ShowEnd"})
	s.Fini()
	return nil
}

func inputRun() error {
	s, err := tcell.NewTerminfoScreen()
	if err != nil {
		return err
	}
	if err := s.Init(); err != nil {
		return err
	}
	emit(ev{"ev": "Reset"})
	emit(ev{"ev": "KeyConfig", "kRune": int(tcell.KeyRune), "kEnter": int(tcell.KeyEnter), "kBackspace": int(tcell.KeyBackspace),
		"kTab": int(tcell.KeyTab), "kEsc": int(tcell.KeyEsc), "kDelete": int(tcell.KeyDelete), "kInsert": int(tcell.KeyInsert),
		"kUp": int(tcell.KeyUp), "kDown": int(tcell.KeyDown), "kLeft": int(tcell.KeyLeft), "kRight": int(tcell.KeyRight),
		"kHome": int(tcell.KeyHome), "kEnd": int(tcell.KeyEnd), "kF1": int(tcell.KeyF1)})
	g := js.Global()
	keys := []string{"Enter", "Backspace", "Tab", "Escape", "Delete", "Insert", "ArrowUp", "ArrowDown", "ArrowLeft", "ArrowRight", "Home", "End",
		"F1", "F2", "F5", "F12", "F13", "F64", "a", "Z", "é", "世", " ", "%", "c", "z"}
	for _, k := range keys {
		for m := 0; m < 16; m++ {
			g.Call("onKeyEvent", k, m&1 != 0, m&2 != 0, m&4 != 0, m&8 != 0)
			rs := []int{}
			for _, r := range k {
				rs = append(rs, int(r))
			}
			emit(ev{"ev": "Key", "name": k, "runes": rs, "shift": m&1 != 0, "alt": m&2 != 0, "ctrl": m&4 != 0, "meta": m&8 != 0, "evs": drain(s)})
		}
	}
	for _, k := range []string{"Control", "Alt", "Meta", "Shift"} {
		g.Call("onKeyEvent", k, false, false, false, false)
		emit(ev{"ev": "ModKey", "name": k, "evs": drain(s)})
	}
	// mouse: every flag set x button code x callback
	// every flag set, going up and then coming down again: a narrower set after a wider one switches the rest off
	for _, flags := range []int{0, 1, 2, 3, 4, 5, 6, 7, 1, 6, 2, 7, 4, 0, 7, 0} {
		if flags == 0 {
			s.DisableMouse()
		} else {
			s.EnableMouse(tcell.MouseFlags(flags))
		}
		for which := 0; which < 4; which++ {
			for _, cb := range []string{"onMouseClick", "onMouseMove"} {
				for m := 0; m < 8; m += 3 {
					g.Call(cb, 3+which, 1+m, which, m&1 != 0, m&2 != 0, m&4 != 0)
					emit(ev{"ev": "Mouse", "flags": flags, "cb": cb, "x": 3 + which, "y": 1 + m, "which": which,
						"shift": m&1 != 0, "alt": m&2 != 0, "ctrl": m&4 != 0, "evs": drain(s)})
				}
			}
		}
	}
	for _, on := range []bool{false, true} {
		if on {
			s.EnablePaste()
			s.EnableFocus()
		} else {
			s.DisablePaste()
			s.DisableFocus()
		}
		for _, b := range []bool{true, false} {
			g.Call("onPaste", b)
			emit(ev{"ev": "Paste", "enabled": on, "start": b, "evs": drain(s)})
			g.Call("onFocus", b)
			emit(ev{"ev": "Focus", "enabled": on, "focused": b, "evs": drain(s)})
		}
	}
	// after a Suspend/Resume cycle every kind of callback is an event again (modes still enabled)
	s.EnableMouse(tcell.MouseFlags(7))
	for cycle := 0; cycle < 2; cycle++ {
		s.Suspend()
		s.Resume()
		drain(s)
		g.Call("onKeyEvent", "a", false, false, false, false)
		emit(ev{"ev": "Key", "name": "a", "runes": []int{'a'}, "shift": false, "alt": false, "ctrl": false, "meta": false, "evs": drain(s)})
		g.Call("onMouseClick", 2, 1, 1, false, false, false)
		emit(ev{"ev": "Mouse", "flags": 7, "cb": "onMouseClick", "x": 2, "y": 1, "which": 1, "shift": false, "alt": false, "ctrl": false, "evs": drain(s)})
		g.Call("onPaste", true)
		emit(ev{"ev": "Paste", "enabled": true, "start": true, "evs": drain(s)})
		g.Call("onFocus", true)
		emit(ev{"ev": "Focus", "enabled": true, "focused": true, "evs": drain(s)})
	}
	// modes switched off (or narrowed) survive a Suspend/Resume cycle as they are: callbacks are honoured for the enabled ones only
	for _, flags := range []int{0, 1, -1} {
		if flags == -1 { // an explicit empty flag word enables nothing (only the call without arguments means "everything")
			flags = 0
			s.EnableMouse(tcell.MouseFlags(0))
		} else if flags == 0 {
			s.DisableMouse()
		} else {
			s.EnableMouse(tcell.MouseFlags(flags))
		}
		s.DisablePaste()
		s.DisableFocus()
		s.Suspend()
		s.Resume()
		drain(s)
		g.Call("onMouseClick", 2, 1, 0, false, false, false)
		emit(ev{"ev": "Mouse", "flags": flags, "cb": "onMouseClick", "x": 2, "y": 1, "which": 0, "shift": false, "alt": false, "ctrl": false, "evs": drain(s)})
		g.Call("onMouseMove", 4, 2, 0, false, false, false)
		emit(ev{"ev": "Mouse", "flags": flags, "cb": "onMouseMove", "x": 4, "y": 2, "which": 0, "shift": false, "alt": false, "ctrl": false, "evs": drain(s)})
		g.Call("onPaste", true)
		emit(ev{"ev": "Paste", "enabled": false, "start": true, "evs": drain(s)})
		g.Call("onFocus", true)
		emit(ev{"ev": "Focus", "enabled": false, "focused": true, "evs": drain(s)})
	}
	s.Fini()
	return nil
}

// lifecycle runs one order of Suspend/Resume/SetSize/Fini on a fresh screen under a timer watchdog.
func lifecycle(seq []string) {
	s, err := tcell.NewTerminfoScreen()
	if err != nil {
		emit(ev{"ev": "Lifecycle", "seq": seq, "error": err.Error(), "wedged": "", "done": 0})
		return
	}
	s.Init()
	done := make(chan int, 8)
	go func() {
		n := 0
		for _, op := range seq {
			switch op {
			case "Suspend":
				s.Suspend()
			case "Resume":
				s.Resume()
			case "SetSize":
				// a poller keeps the event queue from filling up
				for k := 0; k < 20 && s.HasPendingEvent(); k++ { // bounded: after Fini PollEvent returns nil at once
					s.PollEvent()
				}
				s.SetSize(10+n, 5)
			case "Fini":
				s.Fini()
			}
			n++
			done <- n
		}
	}()
	n := 0
	wedged := ""
	for n < len(seq) && wedged == "" {
		select {
		case n = <-done:
		case <-time.After(150 * time.Millisecond):
			wedged = seq[n]
		}
	}
	emit(ev{"ev": "Lifecycle", "seq": seq, "wedged": wedged, "done": n})
	if os.Getenv("VH_DEBUG") != "" {
		println("lifecycle", len(log), wedged, n, time.Now().UnixMilli()%100000)
	}
}

func main() {
	seed := int64(1)
	nhist := 40
	if len(os.Args) > 1 {
		if v, err := strconv.Atoi(os.Args[1]); err == nil {
			seed = int64(v)
		}
	}
	if len(os.Args) > 2 {
		if v, err := strconv.Atoi(os.Args[2]); err == nil {
			nhist = v
		}
	}
	maxLife := 3
	if len(os.Args) > 4 {
		if v, err := strconv.Atoi(os.Args[4]); err == nil {
			maxLife = v
		}
	}
	phases := "dil"
	if len(os.Args) > 3 {
		phases = os.Args[3]
	}
	has := func(c byte) bool {
		for i := 0; i < len(phases); i++ {
			if phases[i] == c {
				return true
			}
		}
		return false
	}
	rng := rand.New(rand.NewSource(seed))
	install()
	for i := 0; i < nhist && has('d'); i++ {
		if err := drawHistory(rng, 15+rng.Intn(25)); err != nil {
			emit(ev{"ev": "Error", "msg": err.Error()})
		}
	}
	if has('i') {
		if err := inputRun(); err != nil {
			emit(ev{"ev": "Error", "msg": err.Error()})
		}
	}
	emit(ev{"ev": "Reset"})
	ops := []string{"Suspend", "Resume", "SetSize", "Fini"}
	var rec func(prefix []string)
	rec = func(prefix []string) {
		if len(prefix) > 0 {
			lifecycle(append([]string{}, prefix...))
		}
		if len(prefix) == maxLife {
			return
		}
		for _, o := range ops {
			rec(append(append([]string{}, prefix...), o))
		}
	}
	if has('l') {
		rec(nil)
	}
	for _, e := range log {
		b, _ := json.Marshal(e)
		fmt.Println(string(b))
	}
}

"""Shared machinery of the /verif checks (python3 stdlib only).

A check is: build the Go harness against /repo's working tree -> (optionally) run an
exhaustive TLC model and collect generated behaviours -> run the harness to record
NDJSON traces from the real code -> validate the traces with TLC against the TLA+
trace specification -> classify reported deviations against known_findings.json ->
write evidence/<id>.json -> print VIOLATION / KNOWN-FINDING lines -> exit 0/1/2.

Exit codes: 0 property held on everything explored (known findings are printed),
1 at least one deviation that known_findings.json does not list, 2 machinery error
(build failure, TLC crash, timeout, trace not accepted) - never a verdict.
"""
import json
import os
import re
import shutil
import subprocess
import sys
import time

VERIF = os.path.dirname(os.path.dirname(os.path.abspath(__file__)))
REPO = os.environ.get("VERIF_REPO", "/repo")
SPEC = os.path.join(VERIF, "spec")
HARNESS = os.path.join(VERIF, "harness")

GOENV = dict(GOFLAGS="-mod=mod", GOPROXY="off", GOSUMDB="off", GOTOOLCHAIN="local",
             CGO_ENABLED=os.environ.get("CGO_ENABLED", "1"))


class MachineryError(Exception):
    pass


def log(*a):
    print(*a, file=sys.stderr, flush=True)


class Ctx:
    def __init__(self, pid, tier=None, seed=None, keep=False):
        self.id = pid
        self.tier = tier or os.environ.get("VERIF_TIER") or "quick"
        if self.tier not in ("quick", "thorough"):
            self.tier = "quick"
        s = seed if seed is not None else os.environ.get("VERIF_SEED")
        try:
            self.seed = int(s) if s not in (None, "") else 1
        except ValueError:
            self.seed = 1
        self.keep = keep
        self.t0 = time.time()
        self.work = os.path.join(VERIF, ".work", "%s.%d" % (pid, os.getpid()))
        shutil.rmtree(self.work, ignore_errors=True)
        os.makedirs(self.work)
        self.specdir = os.path.join(self.work, "spec")
        shutil.copytree(SPEC, self.specdir)
        self.cov = {}             # evidence coverage keys
        self.assumptions = []
        self.violations = []      # deviation records (dicts) from all validation runs
        self.samples = []
        self.tlc_runs = []
        self.vh = None

    # ------------------------------------------------------------------ build
    def build_harness(self, race=False, tags="verif", name="vh"):
        out = os.path.join(self.work, name)
        sumsrc = os.path.join(REPO, "go.sum")
        if os.path.exists(sumsrc):
            shutil.copy(sumsrc, os.path.join(HARNESS, "go.sum"))
        cmd = ["go", "build"] + modfile_args(self.work) + ["-tags", tags, "-o", out]
        if race:
            cmd.append("-race")
        if os.environ.get("VERIF_COVER"):     # bin/vcover: statement coverage of /repo reached by the harness (GOCOVERDIR is inherited)
            cmd += ["-cover", "-coverpkg=github.com/gdamore/tcell/v2,github.com/gdamore/tcell/v2/terminfo,github.com/gdamore/tcell/v2/views,verifharness/cmd/vh"]
        cmd.append("./cmd/vh")
        env = dict(os.environ, **GOENV)
        t = time.time()
        p = subprocess.run(cmd, cwd=HARNESS, env=env, stdout=subprocess.PIPE, stderr=subprocess.STDOUT, text=True)
        if p.returncode != 0:
            log(p.stdout)
            raise MachineryError("harness build failed (does /repo still compile with -tags %s?)" % tags)
        log("[%s] built harness in %.1fs" % (self.id, time.time() - t))
        self.vh = out
        return out

    def run_vh(self, args, timeout=3600, env=None, binary=None, check=True):
        """Runs the harness; returns (parsed last-line JSON summary or {}, full stdout)."""
        cmd = [binary or self.vh] + [str(a) for a in args]
        e = dict(os.environ)
        if env:
            e.update(env)
        try:
            p = subprocess.run(cmd, cwd=self.work, env=e, stdout=subprocess.PIPE, stderr=subprocess.PIPE,
                               text=True, timeout=timeout, errors="replace")
        except subprocess.TimeoutExpired:
            raise MachineryError("harness timed out: %s" % " ".join(cmd[1:4]))
        if check and p.returncode != 0:
            log(p.stdout[-4000:])
            log(p.stderr[-8000:])
            raise MachineryError("harness failed (%d): vh %s" % (p.returncode, " ".join(map(str, args[:6]))))
        summ = {}
        for line in reversed(p.stdout.strip().splitlines()):
            line = line.strip()
            if line.startswith("{"):
                try:
                    summ = json.loads(line)
                    break
                except ValueError:
                    pass
        summ["_rc"] = p.returncode
        summ["_stderr"] = p.stderr
        return summ, p.stdout

    # -------------------------------------------------------------------- TLC
    def tlc(self, module, cfg=None, workers=1, timeout=1800, subdir=None, files=None,
            simulate=None, heap=None, dfs=False, constants=None):
        """Runs TLC on spec/<module>.tla in a private copy; returns a dict:
        out (text), rc, generated, distinct, depth, ok (no error reported), prints (@@ lines)."""
        d = self.specdir
        if subdir:
            d = os.path.join(self.work, subdir)
            shutil.rmtree(d, ignore_errors=True)
            shutil.copytree(SPEC, d)
        for dst, src in (files or {}).items():
            if os.path.abspath(src) != os.path.abspath(os.path.join(d, dst)):
                shutil.copy(src, os.path.join(d, dst))
        cfgname = cfg or (module + ".cfg")
        if constants:
            # rewrite "NAME = value" lines of the cfg
            txt = open(os.path.join(d, cfgname)).read()
            for k, v in constants.items():
                txt, n = re.subn(r"(?m)^(\s*%s\s*=\s*).*$" % re.escape(k), lambda m: m.group(1) + str(v), txt)
                if n == 0:
                    raise MachineryError("constant %s not in %s" % (k, cfgname))
            cfgname = "_%d_%s" % (len(self.tlc_runs), cfgname)
            open(os.path.join(d, cfgname), "w").write(txt)
        meta = os.path.join(d, "_meta%d" % len(self.tlc_runs))
        jopts = ["-XX:+UseParallelGC", "-Xss64m"]
        if heap:
            jopts.append("-Xmx" + heap)
        if dfs:
            jopts.append("-Dtlc2.tool.queue.IStateQueue=StateDeque")
        cmd = ["timeout", str(timeout), "java"] + jopts + [
            "-cp", "/opt/veriftools/tla/tla2tools.jar:/opt/veriftools/tla/CommunityModules-deps.jar",
            "tlc2.TLC", "-noGenerateSpecTE", "-workers", str(workers), "-metadir", meta]
        if simulate:
            cmd += ["-simulate", simulate]
        cmd += ["-config", cfgname, module + ".tla"]
        t = time.time()
        p = subprocess.run(cmd, cwd=d, stdout=subprocess.PIPE, stderr=subprocess.STDOUT, text=True, errors="replace")
        wall = time.time() - t
        shutil.rmtree(meta, ignore_errors=True)
        out = p.stdout
        res = dict(out=out, rc=p.returncode, wall=wall, module=module, cfg=cfgname)
        m = re.search(r"(\d+) states generated, (\d+) distinct states found", out)
        res["generated"] = int(m.group(1)) if m else 0
        res["distinct"] = int(m.group(2)) if m else 0
        m = re.search(r"depth of the complete state graph search is (\d+)", out)
        res["depth"] = int(m.group(1)) if m else 0
        res["ok"] = (p.returncode == 0 and "No error has been found" in out) or \
                    (simulate is not None and p.returncode == 0)
        res["timeout"] = p.returncode == 124
        prints = []
        for line in out.splitlines():
            line = line.strip()
            if line.startswith('"@@'):
                try:
                    prints.append(json.loads(line))
                except ValueError:
                    prints.append(line.strip('"'))
            elif line.startswith("@@"):
                prints.append(line)
        res["prints"] = prints
        self.tlc_runs.append(dict(module=module, cfg=cfgname, wall=round(wall, 2), generated=res["generated"],
                                  distinct=res["distinct"], rc=p.returncode))
        log("[%s] tlc %s/%s: rc=%d generated=%d distinct=%d %.1fs" % (
            self.id, module, cfgname, p.returncode, res["generated"], res["distinct"], wall))
        return res

    def model(self, module, cfg=None, workers=16, timeout=3600, constants=None, subdir=None, must_hold=True):
        """Exhaustive model run.  A failure of the design model is a machinery error unless
        the caller handles it (must_hold=False): verdicts come from real-code behaviour only."""
        r = self.tlc(module, cfg, workers=workers, timeout=timeout, constants=constants, subdir=subdir)
        if must_hold and not r["ok"]:
            log(r["out"][-6000:])
            raise MachineryError("model %s/%s: TLC reported an error or did not finish (rc=%d)" % (module, r["cfg"], r["rc"]))
        self.cov["states"] = self.cov.get("states", 0) + r["distinct"]
        self.cov["transitions"] = self.cov.get("transitions", 0) + r["generated"]
        return r

    def behaviours(self, res, path):
        """Writes the @@B histories printed by a generation run to a file, one JSON array per line."""
        # sorted: TLC's workers print in no particular order, and the harness samples every n-th line by position
        lines = sorted(set(p[4:] for p in res["prints"] if p.startswith("@@B ")))
        with open(path, "w") as f:
            for ln in lines:
                f.write(ln + "\n")
        return len(lines)

    def validate(self, module, tracefile, cfg=None, timeout=3600, subdir=None, expect_events=None, extra_files=None, heap=None):
        """Trace validation: returns list of deviation dicts.  The trace must be fully consumed."""
        files = {"trace.ndjson": tracefile}
        files.update(extra_files or {})
        r = self.tlc(module, cfg, workers=1, timeout=timeout, subdir=subdir, files=files, heap=heap)
        devs = []
        done = None
        for p in r["prints"]:
            if p.startswith("@@V "):
                devs.append(json.loads(p[4:]))
            elif p.startswith("@@DONE"):
                done = p.split()
        if not r["ok"] or done is None:
            log(r["out"][-6000:])
            raise MachineryError("trace validation %s did not complete (rc=%d): the trace spec rejected or crashed on the log" % (module, r["rc"]))
        nv, nlines = int(done[1]), int(done[2])
        if nv != len(devs):
            raise MachineryError("deviation count mismatch (%d reported, %d parsed)" % (nv, len(devs)))
        if expect_events is not None and expect_events != nlines:
            raise MachineryError("trace has %d lines but the harness wrote %d" % (nlines, expect_events))
        r["devs"] = devs
        r["lines"] = nlines
        return r

    def validate_parallel(self, module, tracefile, parts=8, cfg=None, timeout=3600, expect_events=None,
                          extra_files=None):
        """Splits a log at its Reset events into `parts` files validated by parallel TLC processes.
        Line numbers in the returned deviations refer to the original file."""
        from concurrent.futures import ThreadPoolExecutor
        lines = open(tracefile).read().splitlines(True)
        if expect_events is not None and expect_events != len(lines):
            raise MachineryError("trace has %d lines but the harness wrote %d" % (len(lines), expect_events))
        starts = [i for i, ln in enumerate(lines) if ln.startswith('{"ev":"Reset"')]
        if not starts or starts[0] != 0:
            starts = [0] + starts
        # pieces: cut at Reset lines, at most `parts` run at a time; a piece is kept small (TLC holds its whole
        # piece in memory as TLA+ values, roughly 50 times the size of the JSON text)
        workers = max(1, min(parts, len(starts)))
        sizes = [len(ln) for ln in lines]
        total = sum(sizes)
        per_bytes = min(max(total // workers + 1, 1), 6 << 20)
        cuts, acc = [0], 0
        bounds = set(starts)
        for i, sz in enumerate(sizes):
            if i in bounds and acc >= per_bytes and i != cuts[-1]:
                cuts.append(i)
                acc = 0
            acc += sz
        cuts.append(len(lines))
        jobs = []
        for k in range(len(cuts) - 1):
            pf = "%s.part%d" % (tracefile, k)
            with open(pf, "w") as f:
                f.writelines(lines[cuts[k]:cuts[k + 1]])
            jobs.append((k, pf, cuts[k]))
        n0 = len(self.tlc_runs)
        # the parallel JVMs share the machine: half of the memory, divided among them (at least 1 GB each)
        try:
            total_mb = int(re.search(r"MemTotal:\s+(\d+)", open("/proc/meminfo").read()).group(1)) // 1024
        except Exception:
            total_mb = 16384
        heap = "%dm" % max(1024, total_mb // 2 // max(1, workers))

        def one(job):
            k, pf, off = job
            r = self.validate(module, pf, cfg=cfg, timeout=timeout, subdir="v%d_%d" % (n0, k), extra_files=extra_files, heap=heap)
            for d in r["devs"]:
                if isinstance(d.get("l"), int):
                    d["l"] += off
            return r
        with ThreadPoolExecutor(max_workers=workers) as ex:
            rs = list(ex.map(one, jobs))
        devs = [d for r in rs for d in r["devs"]]
        for _, pf, _ in jobs:
            os.remove(pf)
        return dict(devs=devs, lines=sum(r["lines"] for r in rs), ok=True)

    # ---------------------------------------------------------------- verdict
    def add_violations(self, devs, tracefile=None, label=None):
        for d in devs:
            d = dict(d)
            if tracefile:
                d["_trace"] = tracefile
            if label:
                d["_label"] = label
            self.violations.append(d)

    def finish(self, level, rule=None, extra=None):
        known = load_known()
        kf_lines, new = {}, []
        for d in self.violations:
            k = match_known(self.id, d, known)
            if k is not None:
                kf_lines.setdefault(k["id"], [k, 0])[1] += 1
            else:
                new.append(d)
        for kid, (k, n) in sorted(kf_lines.items()):
            print("KNOWN-FINDING: property=%s %s [%s, %d occurrence(s)]" % (self.id, k["what"], kid, n))
        replay = None
        if new:
            replay = self.write_replay(new)
        wall = time.time() - self.t0
        cov = dict(self.cov)
        if rule:
            cov["rule"] = rule
        cov.setdefault("samples", self.samples[:5] or ["(none recorded)"])
        runs = self.tlc_runs
        if len(runs) > 40:      # many validation pieces: one line per (module, cfg) instead of one per TLC process
            agg = {}
            for r in runs:
                a = agg.setdefault((r.get("module"), r.get("cfg")), dict(module=r.get("module"), cfg=r.get("cfg"), processes=0,
                                                                         generated=0, distinct=0, wall=0.0, rc=0))
                a["processes"] += 1
                a["generated"] += r.get("generated") or 0
                a["distinct"] += r.get("distinct") or 0
                a["wall"] = round(a["wall"] + (r.get("wall") or 0), 2)
                a["rc"] = a["rc"] or (r.get("rc") or 0)
            runs = list(agg.values())
        cov["tlc_runs"] = runs
        cov["known_findings_seen"] = sorted(kf_lines.keys())
        if extra:
            cov.update(extra)
        ev = dict(property_id=self.id, tier=self.tier, seed=self.seed, level=level, coverage=cov,
                  assumptions=self.assumptions, wall_s=round(wall, 2), violations=len(new))
        os.makedirs(os.path.join(VERIF, "evidence"), exist_ok=True)
        with open(os.path.join(VERIF, "evidence", self.id + ".json"), "w") as f:
            json.dump(ev, f, indent=1, sort_keys=True)
            f.write("\n")
        if not self.keep:
            shutil.rmtree(self.work, ignore_errors=True)
        if new:
            classes = {}
            for d in new:
                classes.setdefault(sig(d), 0)
                classes[sig(d)] += 1
            for s, n in sorted(classes.items())[:20]:
                log("  deviation class %s x%d" % (s, n))
            print("VIOLATION property=%s replay=%s" % (self.id, replay))
            sys.exit(1)
        print("OK property=%s tier=%s seed=%d wall=%.1fs" % (self.id, self.tier, self.seed, wall))
        sys.exit(0)

    def write_replay(self, new):
        """Stores the first new deviation with the history that led to it."""
        os.makedirs(os.path.join(VERIF, "replays"), exist_ok=True)
        d = new[0]
        path = os.path.join(VERIF, "replays", "%s-%s-%d.json" % (self.id, self.tier, self.seed))
        hist = []
        tf = d.get("_trace")
        if tf and os.path.exists(tf) and isinstance(d.get("l"), int):
            lines = open(tf).read().splitlines()
            l = d["l"]
            start = l - 1
            while start > 0 and '"ev":"Reset"' not in lines[start]:
                start -= 1
            hist = [json.loads(x) for x in lines[start:l]]
            for h in hist:          # observations are re-recorded on replay
                for k in ("obs", "oob"):
                    h.pop(k, None)
        with open(path, "w") as f:
            json.dump(dict(property=self.id, deviation={k: v for k, v in d.items() if not k.startswith("_")},
                           all_new=[{k: v for k, v in x.items() if not k.startswith("_")} for x in new[:50]],
                           history=hist), f, indent=1)
            f.write("\n")
        return os.path.relpath(path, VERIF)


def sig(d):
    return " ".join("%s=%s" % (k, d[k]) for k in sorted(d) if k not in ("l", "x", "y", "cp", "_trace", "_label"))


def modfile_args(workdir):
    """The registered commands build against /repo.  For trying a change without touching /repo (VERIF_REPO names a
    scratch worktree) the harness is built with an alternate go.mod whose replace directive points there."""
    if os.path.abspath(REPO) == "/repo":
        return []
    alt = os.path.join(workdir, "go.alt.mod")
    with open(alt, "w") as f:
        f.write(open(os.path.join(HARNESS, "go.mod")).read().replace("=> /repo", "=> " + os.path.abspath(REPO)))
    sumsrc = os.path.join(HARNESS, "go.sum")
    if os.path.exists(sumsrc):
        shutil.copy(sumsrc, os.path.join(workdir, "go.alt.sum"))
    return ["-modfile=" + alt]


def load_known():
    p = os.path.join(VERIF, "known_findings.json")
    if not os.path.exists(p):
        return []
    return [k for k in json.load(open(p)) if k.get("status") == "known"]


def match_known(pid, d, known):
    for k in known:
        if k["property"] != pid:
            continue
        if all(d.get(f) == v for f, v in k["match"].items()):
            return k
    return None


def run_check(pid, fn):
    """Entry point used by bin/vcheck: runs fn(ctx) and maps exceptions to exit 2."""
    import argparse
    ap = argparse.ArgumentParser()
    ap.add_argument("--tier", default=None)
    ap.add_argument("--seed", default=None)
    ap.add_argument("--replay", default=None)
    ap.add_argument("--keep", action="store_true")
    a = ap.parse_args(sys.argv[2:])
    ctx = Ctx(pid, a.tier, a.seed, a.keep)
    ctx.replay = a.replay
    try:
        fn(ctx)
    except MachineryError as e:
        log("MACHINERY-ERROR property=%s: %s" % (pid, e))
        if not ctx.keep:
            shutil.rmtree(ctx.work, ignore_errors=True)
        sys.exit(2)
    except subprocess.TimeoutExpired as e:
        log("MACHINERY-ERROR property=%s: timeout %s" % (pid, e))
        sys.exit(2)

------------------------------- MODULE CellBuf -------------------------------
(***************************************************************************)
(* Specification of tcell's CellBuffer (property C08).                     *)
(*                                                                         *)
(* This module is pure: it defines the abstract state of a cell buffer as  *)
(* a record and every public call as an operator from state to state, so   *)
(* that the same definitions are used by                                   *)
(*   - CellBufModel  (exhaustive model checking of the design + behaviour  *)
(*                    generation), and                                      *)
(*   - CellBufTrace  (validation of traces recorded from the real code).   *)
(*                                                                         *)
(* The REQUIREMENT side (Req-operators) states what the property demands and leaves *)
(* freedom where the statement leaves it; the IMPLEMENTATION side (Impl-operators)  *)
(* is a transcription of cell.go's algorithm, used only in the model to    *)
(* show that the algorithm refines the requirement for small bounds.       *)
(*                                                                         *)
(* Encodings (shared with the Go harness):                                 *)
(*   rune        integer code point (any int)                              *)
(*   width class wc: 0 = zero-width / control / invalid, 1 = narrow,       *)
(*               2 = wide, -1 = unconstrained (outside a documented        *)
(*               contract, e.g. Fill with a wide rune)                     *)
(*   colour      <<kind, value>>, kind 0 default, 1 palette, 2 rgb,        *)
(*               3 ColorReset, 4 ColorNone, 5 other                        *)
(*   style       <<fg, bg, attrs, ulstyle, ulcolour, url, urlid>>          *)
(***************************************************************************)
EXTENDS Integers, Sequences, FiniteSets

ColDefault == <<0, 0>>
ColNone    == <<4, 1>>
DefaultStyle == <<ColDefault, ColDefault, 0, 0, ColDefault, <<>>, <<>>>>

\* ColorNone in fg/bg keeps the cell's previous colour.
Merge(new, old) ==
    [new EXCEPT ![1] = IF new[1] = ColNone THEN old[1] ELSE new[1],
                ![2] = IF new[2] = ColNone THEN old[2] ELSE new[2]]

---------------------------------------------------------------------------
(* Requirement-level state *)

\* lock: 0 unlocked, 1 locked, 2 unknown (Resize does not say what happens to locks)
NewCell == [cp |-> 0, wc |-> 0, comb |-> <<>>, st |-> DefaultStyle,
            snap |-> [cp |-> 32, comb |-> <<>>, st |-> DefaultStyle],
            lock |-> 0, force |-> TRUE, pristine |-> FALSE, src |-> "new"]

EmptyBuf == [w |-> 0, h |-> 0, cells |-> <<>>]

InRange(cb, x, y) == x >= 0 /\ y >= 0 /\ x < cb.w /\ y < cb.h
Idx(cb, x, y) == y * cb.w + x + 1          \* cells is a 1-based sequence, row-major

\* What GetContent must report as the rune: blank for zero-width/control runes.
ObsRune(cp, wc) == IF wc = 0 \/ cp < 32 THEN 32 ELSE cp
Obs(c) == [cp |-> ObsRune(c.cp, c.wc), comb |-> c.comb, st |-> c.st]

MustDirty(c) == c.lock = 0 /\ (c.force \/ Obs(c) # c.snap)
MustClean(c) == c.lock = 1 \/ (c.lock = 0 /\ c.pristine /\ ~c.force)

ReqSetContent(cb, x, y, cp, wc, comb, st) ==
    IF ~InRange(cb, x, y) THEN cb
    ELSE LET i   == Idx(cb, x, y)
             old == cb.cells[i]
             changed == cp # old.cp \/ comb # old.comb
             c1  == [old EXCEPT !.cp = cp, !.wc = wc, !.comb = comb,
                                !.st = Merge(st, old.st), !.pristine = FALSE,
                                !.src = "set"]
             cs1 == [cb.cells EXCEPT ![i] = c1]
             \* changing a wide rune dirties every column it covered
             cs2 == IF x + 1 < cb.w /\ old.wc \in {2, -1}
                    THEN [cs1 EXCEPT ![i+1] =
                            [@ EXCEPT !.pristine = FALSE,
                                      !.force = @ \/ (old.wc = 2 /\ changed)]]
                    ELSE cs1
         IN [cb EXCEPT !.cells = cs2]

\* Fill's documented contract excludes wide runes: their width is unconstrained.
ReqFill(cb, cp, wc, st) ==
    [cb EXCEPT !.cells = [i \in DOMAIN cb.cells |->
        [cb.cells[i] EXCEPT !.cp = cp, !.wc = IF wc = 2 THEN -1 ELSE wc,
                            !.comb = <<>>, !.st = Merge(st, cb.cells[i].st),
                            !.pristine = FALSE, !.src = "fill"]]]

ReqResize(cb, w, h) ==
    IF w = cb.w /\ h = cb.h THEN cb
    ELSE [w |-> w, h |-> h,
          cells |-> [i \in 1..(w*h) |->
              LET x == (i-1) % w
                  y == (i-1) \div w
              IN IF x < cb.w /\ y < cb.h
                 THEN LET o == cb.cells[Idx(cb, x, y)]
                      IN [o EXCEPT !.force = TRUE, !.pristine = FALSE,
                                   !.lock = IF o.lock = 0 THEN 0 ELSE 2]
                 ELSE NewCell]]

ReqInvalidate(cb) ==
    [cb EXCEPT !.cells = [i \in DOMAIN cb.cells |->
        [cb.cells[i] EXCEPT !.force = TRUE, !.pristine = FALSE]]]

ReqSetDirty(cb, x, y, d) ==
    IF ~InRange(cb, x, y) THEN cb
    ELSE LET i == Idx(cb, x, y) c == cb.cells[i]
         IN [cb EXCEPT !.cells[i] =
              IF d THEN [c EXCEPT !.force = TRUE, !.pristine = FALSE]
              ELSE [c EXCEPT !.force = FALSE, !.pristine = TRUE, !.snap = Obs(c)]]

ReqLock(cb, x, y) ==
    IF ~InRange(cb, x, y) THEN cb
    ELSE [cb EXCEPT !.cells[Idx(cb, x, y)].lock = 1]

ReqUnlock(cb, x, y) ==
    IF ~InRange(cb, x, y) THEN cb
    ELSE LET i == Idx(cb, x, y)
         IN [cb EXCEPT !.cells[i] = [@ EXCEPT !.lock = 0, !.force = TRUE, !.pristine = FALSE]]

\* ---- observations -------------------------------------------------------
\* got = <<rune, comb, style, width>>; the set of parts of the answer that are wrong
GetWrong(cb, x, y, got) ==
    IF InRange(cb, x, y)
    THEN LET c == cb.cells[Idx(cb, x, y)]
         IN (IF got[1] = ObsRune(c.cp, c.wc) THEN {} ELSE {"rune"})
            \cup (IF got[2] = c.comb THEN {} ELSE {"comb"})
            \cup (IF got[3] = c.st THEN {} ELSE {"style"})
            \cup (IF c.wc = -1 \/ got[4] = (IF c.wc = 2 THEN 2 ELSE 1) THEN {} ELSE {"width"})
    ELSE (IF got[1] = 0 THEN {} ELSE {"rune"})
         \cup (IF got[2] = <<>> THEN {} ELSE {"comb"})
         \cup (IF got[3] = DefaultStyle THEN {} ELSE {"style"})
GetOK(cb, x, y, got) == GetWrong(cb, x, y, got) = {}

DirtyOK(cb, x, y, d) ==
    IF InRange(cb, x, y)
    THEN LET c == cb.cells[Idx(cb, x, y)]
         IN (MustDirty(c) => d) /\ (MustClean(c) => ~d)
    ELSE TRUE      \* the statement does not say what Dirty reports out of range

\* A requirement state is satisfiable: no cell is required to be both.
ReqConsistent(cb) ==
    /\ Len(cb.cells) = cb.w * cb.h
    /\ \A i \in DOMAIN cb.cells : ~(MustDirty(cb.cells[i]) /\ MustClean(cb.cells[i]))

---------------------------------------------------------------------------
(* Implementation-level state: transcription of cell.go *)

\* rw is go-runewidth's answer for the rune (0, 1 or 2), supplied by the caller.
INewCell == [main |-> 0, comb |-> <<>>, st |-> DefaultStyle,
             lmain |-> 0, lcomb |-> <<>>, lst |-> DefaultStyle, width |-> 0, lock |-> FALSE]
IEmptyBuf == [w |-> 0, h |-> 0, cells |-> <<>>]

ISetDirtyCell(c, d) ==
    IF d THEN [c EXCEPT !.lmain = 0]
    ELSE LET m == IF c.main = 0 THEN 32 ELSE c.main
         IN [c EXCEPT !.main = m, !.lmain = m, !.lcomb = c.comb, !.lst = c.st]

ImplSetDirty(ib, x, y, d) ==
    IF ~InRange(ib, x, y) THEN ib
    ELSE [ib EXCEPT !.cells[Idx(ib, x, y)] = ISetDirtyCell(@, d)]

ImplSetContent(ib, x, y, cp, rw, comb, st) ==
    IF ~InRange(ib, x, y) THEN ib
    ELSE LET i == Idx(ib, x, y)
             c == ib.cells[i]
             chg == c.width > 0 /\ (cp # c.main \/ comb # c.comb)
             \* SetDirty(x+k, y, true) for k < width
             d0 == IF chg THEN [ib.cells EXCEPT ![i] = ISetDirtyCell(@, TRUE)] ELSE ib.cells
             d1 == IF chg /\ c.width > 1 /\ x + 1 < ib.w
                   THEN [d0 EXCEPT ![i+1] = ISetDirtyCell(@, TRUE)] ELSE d0
             c2 == d1[i]
         IN [ib EXCEPT !.cells = [d1 EXCEPT ![i] =
                [c2 EXCEPT !.comb = comb,
                           !.width = IF c2.main # cp THEN rw ELSE c2.width,
                           !.main = cp,
                           !.st = Merge(st, c2.st)]]]

\* FillWidth(rw) is what Fill stores as the width (1 in the original code).
ImplFill(ib, cp, fw, st) ==
    [ib EXCEPT !.cells = [i \in DOMAIN ib.cells |->
        [ib.cells[i] EXCEPT !.main = cp, !.comb = <<>>,
                            !.st = Merge(st, ib.cells[i].st), !.width = fw]]]

ImplResize(ib, w, h) ==
    IF w = ib.w /\ h = ib.h THEN ib
    ELSE [w |-> w, h |-> h,
          cells |-> [i \in 1..(w*h) |->
              LET x == (i-1) % w
                  y == (i-1) \div w
              IN IF x < ib.w /\ y < ib.h
                 THEN LET o == ib.cells[Idx(ib, x, y)]
                      IN [INewCell EXCEPT !.main = o.main, !.comb = o.comb,
                                          !.st = o.st, !.width = o.width]
                 ELSE INewCell]]

ImplInvalidate(ib) ==
    [ib EXCEPT !.cells = [i \in DOMAIN ib.cells |-> [ib.cells[i] EXCEPT !.lmain = 0]]]

ImplLock(ib, x, y) ==
    IF ~InRange(ib, x, y) THEN ib ELSE [ib EXCEPT !.cells[Idx(ib, x, y)].lock = TRUE]
ImplUnlock(ib, x, y) ==
    IF ~InRange(ib, x, y) THEN ib
    ELSE [ib EXCEPT !.cells[Idx(ib, x, y)] = ISetDirtyCell([@ EXCEPT !.lock = FALSE], TRUE)]

ImplGet(ib, x, y) ==
    IF InRange(ib, x, y)
    THEN LET c == ib.cells[Idx(ib, x, y)]
         IN IF c.width = 0 \/ c.main < 32 THEN <<32, c.comb, c.st, 1>>
            ELSE <<c.main, c.comb, c.st, c.width>>
    ELSE <<0, <<>>, DefaultStyle, 0>>

ImplDirty(ib, x, y) ==
    IF InRange(ib, x, y)
    THEN LET c == ib.cells[Idx(ib, x, y)]
         IN IF c.lock THEN FALSE
            ELSE c.lmain = 0 \/ c.lmain # c.main \/ c.lst # c.st \/ c.lcomb # c.comb
    ELSE FALSE
=============================================================================

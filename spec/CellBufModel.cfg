SPECIFICATION Spec
CONSTANTS
  MaxW = 2
  MaxH = 1
  MaxOps = 4
  FillFixed = TRUE
  GEN = FALSE
VIEW View
ACTION_CONSTRAINT Emit
INVARIANTS Consistent Refines LockedClean
PROPERTIES ResizeKeeps
CHECK_DEADLOCK FALSE

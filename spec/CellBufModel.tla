---------------------------- MODULE CellBufModel ----------------------------
(***************************************************************************)
(* Design model for C08: the transcription of cell.go (Impl-operators) is run in    *)
(* lock step with the requirement state (Req-operators); TLC checks, for every      *)
(* reachable state within the bounds, that what the implementation would   *)
(* answer to GetContent / Dirty for every coordinate is an answer the      *)
(* requirement permits (Refines), and that the requirement itself is       *)
(* satisfiable (ReqConsistent).                                            *)
(*                                                                         *)
(* With GEN = TRUE the same model prints one shortest operation history    *)
(* per transition of the state graph ("@@B" lines) for replay into the     *)
(* real CellBuffer.                                                        *)
(***************************************************************************)
EXTENDS CellBuf, TLC, Json

CONSTANTS MaxW, MaxH,        \* buffer sizes explored: 0..MaxW x 0..MaxH
          MaxOps,            \* history length bound
          FillFixed,         \* TRUE: Fill records the rune width like SetContent does
          GEN                \* TRUE: print behaviours

VARIABLES req, impl, hist

vars == <<req, impl, hist>>

\* rune alphabet: <<code point, required width class, go-runewidth answer>>
Runes == { <<0, 0, 0>>, <<97, 1, 1>>, <<19990, 2, 2>>, <<8203, 0, 0>>, <<7, 0, 0>> }
S1 == <<<<1, 1>>, <<1, 2>>, 1, 0, ColDefault, <<>>, <<>>>>
S2 == <<ColNone, <<2, 255>>, 0, 0, ColDefault, <<>>, <<>>>>
Styles == { DefaultStyle, S1, S2 }
Combs == { <<>>, <<769>> }
Xs == -1..MaxW
Ys == -1..MaxH

FillW(rw) == IF FillFixed THEN rw ELSE 1

Ops ==
    [op : {"SetContent"}, x : Xs, y : Ys, r : Runes, comb : Combs, st : Styles]
    \cup [op : {"Fill"}, r : Runes, st : Styles]
    \cup [op : {"Resize"}, w : 0..MaxW, h : 0..MaxH]
    \cup [op : {"Invalidate"}]
    \cup [op : {"SetDirty"}, x : Xs, y : Ys, d : BOOLEAN]
    \cup [op : {"Lock"}, x : Xs, y : Ys]
    \cup [op : {"Unlock"}, x : Xs, y : Ys]

ApplyReq(cb, o) ==
    CASE o.op = "SetContent" -> ReqSetContent(cb, o.x, o.y, o.r[1], o.r[2], o.comb, o.st)
      [] o.op = "Fill"       -> ReqFill(cb, o.r[1], o.r[2], o.st)
      [] o.op = "Resize"     -> ReqResize(cb, o.w, o.h)
      [] o.op = "Invalidate" -> ReqInvalidate(cb)
      [] o.op = "SetDirty"   -> ReqSetDirty(cb, o.x, o.y, o.d)
      [] o.op = "Lock"       -> ReqLock(cb, o.x, o.y)
      [] o.op = "Unlock"     -> ReqUnlock(cb, o.x, o.y)

ApplyImpl(ib, o) ==
    CASE o.op = "SetContent" -> ImplSetContent(ib, o.x, o.y, o.r[1], o.r[3], o.comb, o.st)
      [] o.op = "Fill"       -> ImplFill(ib, o.r[1], FillW(o.r[3]), o.st)
      [] o.op = "Resize"     -> ImplResize(ib, o.w, o.h)
      [] o.op = "Invalidate" -> ImplInvalidate(ib)
      [] o.op = "SetDirty"   -> ImplSetDirty(ib, o.x, o.y, o.d)
      [] o.op = "Lock"       -> ImplLock(ib, o.x, o.y)
      [] o.op = "Unlock"     -> ImplUnlock(ib, o.x, o.y)

Init == req = EmptyBuf /\ impl = IEmptyBuf /\ hist = <<>>

Next == /\ Len(hist) < MaxOps
        /\ \E o \in Ops :
             /\ req' = ApplyReq(req, o)
             /\ impl' = ApplyImpl(impl, o)
             /\ hist' = Append(hist, o)

Spec == Init /\ [][Next]_vars

View == <<req, impl, Len(hist)>>

\* ---- properties ---------------------------------------------------------
Consistent == ReqConsistent(req)

Refines == \A x \in Xs, y \in Ys :
              /\ GetOK(req, x, y, ImplGet(impl, x, y))
              /\ DirtyOK(req, x, y, ImplDirty(impl, x, y))

\* A locked cell never reports dirty, whatever happens to it.
LockedClean == \A x \in Xs, y \in Ys :
                 (InRange(impl, x, y) /\ impl.cells[Idx(impl, x, y)].lock) => ~ImplDirty(impl, x, y)

\* Action property: Resize keeps the overlapping region.
ResizeKeeps == [][\A x \in Xs, y \in Ys :
                    (InRange(req, x, y) /\ InRange(req', x, y) /\ hist' # hist
                       /\ hist'[Len(hist')].op = "Resize")
                    => Obs(req'.cells[Idx(req', x, y)]) = Obs(req.cells[Idx(req, x, y)])]_vars

\* ---- behaviour generation ----------------------------------------------
Emit == (GEN /\ hist' # hist) => PrintT("@@B " \o ToJson(hist'))
=============================================================================

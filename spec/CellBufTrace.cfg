SPECIFICATION Spec
INVARIANTS Consistent Done
POSTCONDITION Accepted
CHECK_DEADLOCK FALSE

---------------------------- MODULE CellBufTrace ----------------------------
(***************************************************************************)
(* Trace validation for C08: replays a log of calls made on the real       *)
(* tcell.CellBuffer ("trace.ndjson", written by `vh cellbuf`) through the  *)
(* requirement operators of CellBuf and checks, after every call, the      *)
(* logged GetContent / Dirty answer of every cell (and of a ring of        *)
(* out-of-range coordinates) against what the requirement permits.         *)
(*                                                                         *)
(* The spec is total: a deviation never disables the step, it is reported  *)
(* as an "@@V" line and counted in nviol, so one run reports every         *)
(* deviation of a log that concatenates many histories.  A deviation that  *)
(* persists (same cell, same kind) is reported once, when it first shows.  *)
(***************************************************************************)
EXTENDS CellBuf, TLC, Json

Trace == ndJsonDeserialize("trace.ndjson")

VARIABLES l, cb, bad, nviol
vars == <<l, cb, bad, nviol>>

Apply(s, e) ==
    CASE e.ev = "Reset"      -> EmptyBuf
      [] e.ev = "Panic"      -> s
      [] e.ev = "SetContent" -> ReqSetContent(s, e.x, e.y, e.cp, e.wc, e.comb, e.st)
      [] e.ev = "Fill"       -> ReqFill(s, e.cp, e.wc, e.st)
      [] e.ev = "Resize"     -> ReqResize(s, e.x, e.y)
      [] e.ev = "Invalidate" -> ReqInvalidate(s)
      [] e.ev = "SetDirty"   -> ReqSetDirty(s, e.x, e.y, e.d)
      [] e.ev = "Lock"       -> ReqLock(s, e.x, e.y)
      [] e.ev = "Unlock"     -> ReqUnlock(s, e.x, e.y)

\* deviations of event e against the state s reached after it; each carries the
\* class of the witness: which part of the answer, how the cell got its content
\* (src), and the width class of the stored rune.
Dev(tag, part, x, y, c) ==
    [tag |-> tag, part |-> part, x |-> x, y |-> y, src |-> c.src, wc |-> c.wc, cp |-> c.cp]
Oob == [src |-> "oob", wc |-> 0, cp |-> 0]

Deviations(s, e) ==
    IF e.ev = "Reset" THEN {}
    \* no documented call on a CellBuffer may panic, whatever its coordinates: nothing holds of the state after it
    ELSE IF e.ev = "Panic" THEN {[tag |-> "C08.panic", part |-> e.op, x |-> e.x, y |-> e.y, src |-> e.msg, wc |-> 0, cp |-> 0]}
    ELSE
      (IF e.w # s.w \/ e.h # s.h \/ Len(e.obs) # s.w * s.h
       THEN {Dev("C08.size", "size", e.w, e.h, Oob)}
       ELSE UNION { LET x == (i-1) % s.w  y == (i-1) \div s.w  o == e.obs[i]  c == s.cells[i] IN
                      { Dev("C08.get", p, x, y, c) : p \in GetWrong(s, x, y, o) }
                      \cup (IF DirtyOK(s, x, y, o[5]) THEN {}
                            ELSE {Dev(IF o[5] THEN "C08.dirty_spurious" ELSE "C08.dirty_missed",
                                      "dirty", x, y, c)})
                    : i \in 1..Len(e.obs) })
      \cup UNION { LET o == e.oob[i] IN
                     { Dev("C08.get_oob", p, o[1], o[2], Oob)
                       : p \in GetWrong(s, o[1], o[2], <<o[3], o[4], o[5], o[6]>>) }
                   : i \in 1..Len(e.oob) }

Key(d) == <<d.tag, d.part, d.x, d.y>>

Report(e, devs) ==
    \A d \in devs : PrintT("@@V " \o ToJson(d @@ [l |-> l, ev |-> e.ev]))

Init == l = 1 /\ cb = EmptyBuf /\ bad = {} /\ nviol = 0

Next == /\ l <= Len(Trace)
        /\ LET e == Trace[l]
               s == Apply(cb, e)
               devs == Deviations(s, e)
               fresh == { d \in devs : Key(d) \notin bad }
           IN /\ cb' = s
              /\ bad' = { Key(d) : d \in devs }
              /\ Report(e, fresh)
              /\ nviol' = nviol + Cardinality(fresh)
        /\ l' = l + 1

Spec == Init /\ [][Next]_vars

\* The requirement state stays satisfiable along every real history.
Consistent == ReqConsistent(cb)

\* every line of the log was consumed
Accepted == TLCGet("stats").diameter - 1 = Len(Trace)
Done == l > Len(Trace) => PrintT("@@DONE " \o ToString(nviol) \o " " \o ToString(Len(Trace)))
=============================================================================

-------------------------------- MODULE Color --------------------------------
(***************************************************************************)
(* C16: the xterm palette by formula, the CSS name table, the conversion   *)
(* laws and the optimality of FindColor.  CIELAB arithmetic cannot be done *)
(* in TLC (no reals): the distance is an uninterpreted function whose      *)
(* values arrive with each Find event as integers (delta-E * 10^6) computed *)
(* by the harness's own CIE76 code; TLC decides membership and minimality. *)
(***************************************************************************)
EXTENDS Integers, Sequences, CssNames

Ansi16 == <<0, 8388608, 32768, 8421376, 128, 8388736, 32896, 12632256,
            8421504, 16711680, 65280, 16776960, 255, 16711935, 65535, 16777215>>
Level == <<0, 95, 135, 175, 215, 255>>

XtermRGB(i) ==
    IF i < 16 THEN Ansi16[i + 1]
    ELSE IF i < 232 THEN LET k == i - 16 IN
         Level[(k \div 36) + 1] * 65536 + Level[((k \div 6) % 6) + 1] * 256 + Level[(k % 6) + 1]
    ELSE LET g == 8 + 10 * (i - 232) IN g * 65536 + g * 256 + g

HexDigit(d) == IF d < 10 THEN 48 + d ELSE 55 + d          \* upper case
CssOf(v) == <<35, HexDigit((v \div 1048576) % 16), HexDigit((v \div 65536) % 16), HexDigit((v \div 4096) % 16),
              HexDigit((v \div 256) % 16), HexDigit((v \div 16) % 16), HexDigit(v % 16)>>

\* every logged view of the 24-bit value v must agree with it
ConvWrong(e) ==
    (IF e.hex = e.v THEN {} ELSE {"Hex"})
    \cup (IF e.r = (e.v \div 65536) % 256 /\ e.g = (e.v \div 256) % 256 /\ e.b = e.v % 256 THEN {} ELSE {"RGB"})
    \cup (IF e.nrgb = e.v THEN {} ELSE {"NewRGBColor"})
    \cup (IF e.tc = e.v /\ e.tcrgb THEN {} ELSE {"TrueColor"})
    \cup (IF e.css = CssOf(e.v) THEN {} ELSE {"CSS"})
    \cup (IF e.get = e.v THEN {} ELSE {"GetColor"})
    \cup (IF e.img = e.v THEN {} ELSE {"FromImageColor"})
    \cup (IF e.valid THEN {} ELSE {"Valid"})

BlockWrong(e) ==
    {f \in {"hex", "rgb", "nrgb", "tc", "img", "get"} : \E i \in 1..Len(e[f]) : e[f][i] # e.base + i - 1}

\* FindColor: result is a member, and no member is strictly closer.  Distances are delta-E (CIE76) scaled by 10^6,
\* computed by the harness's own CIELAB code; tol absorbs what the definition leaves open (4- or 7-digit sRGB matrix,
\* white point digits): implementations that are both "CIE76" differ by about 10^-4 of the distance (0.005 at 34, 0.01 at 100).
FindWrong(e, tol) ==
    IF Len(e.pal) = 0 THEN (IF e.isdefault THEN {} ELSE {"empty_palette"})
    ELSE IF e.idx < 1 \/ e.idx > Len(e.pal) THEN {"not_a_member"}
    \* members that are not colours carry distance -1: they are never "closer", and choosing one is not judged
    \* the allowance grows with the distance: CIELAB implementations agree to about 10^-4 relative
    ELSE IF e.d[e.idx] >= 0 /\ \E q \in 1..Len(e.pal) : e.d[q] >= 0 /\ e.d[q] + tol + (e.d[e.idx] \div 2500) < e.d[e.idx]
         THEN {"not_nearest"} ELSE {}
=============================================================================

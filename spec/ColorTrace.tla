------------------------------ MODULE ColorTrace ------------------------------
(* Trace validation for C16 (events written by `vh color`). *)
EXTENDS Color, TLC, Json, FiniteSets

Trace == ndJsonDeserialize("trace.ndjson")
VARIABLES l, nviol
vars == <<l, nviol>>

Dev(tag, part, info) == [tag |-> tag, part |-> part, info |-> info]

Step(e) ==
    CASE e.ev = "Palette" ->
           IF e.hex = XtermRGB(e.i) /\ e.valid /\ ~e.isrgb THEN {} ELSE {Dev("C16.palette", "value", <<e.i, e.hex>>)}
      [] e.ev = "CssName" ->       \* a name of the CSS table looked up with GetColor
           IF e.hex = CssTable[e.name] THEN {} ELSE {Dev("C16.name", "css_name", <<e.name, e.hex>>)}
      [] e.ev = "TcellName" ->     \* a name tcell defines
           IF e.name \in DOMAIN CssTable /\ e.hex = CssTable[e.name] THEN
              (IF e.backhex = e.hex /\ e.strhex = e.hex THEN {} ELSE {Dev("C16.name", "name_of_colour_is_another_colour", <<e.name, e.hex, e.backhex, e.strhex>>)})
           ELSE {Dev("C16.name", IF e.name \in DOMAIN CssTable THEN "tcell_name_value" ELSE "EXTRA_name_not_in_css", <<e.name, e.hex>>)}
      [] e.ev = "Conv" -> {Dev("C16.conversion", p, e.v) : p \in ConvWrong(e)}
      [] e.ev = "Block" -> {Dev("C16.conversion", p, e.base) : p \in BlockWrong(e)}
      [] e.ev = "Special" ->
           IF ~e.valid /\ e.hex = -1 /\ e.r = -1 /\ e.g = -1 /\ e.b = -1 /\ e.css = <<>> /\ e.tcdefault THEN {}
           ELSE {Dev("C16.special", e.which, <<e.valid, e.hex, e.r>>)}
      [] e.ev = "Img16" ->         \* opaque 16-bit-per-channel sources: each channel is reduced to its high byte
           LET want == (e.r \div 256) * 65536 + (e.g \div 256) * 256 + (e.b \div 256)
               grey == (e.y \div 256) * 65793
           IN (IF e.rgba64 = want THEN {} ELSE {Dev("C16.conversion", "FromImageColor_RGBA64", <<e.r, e.g, e.b, e.rgba64>>)})
              \cup (IF e.nrgba64 = want THEN {} ELSE {Dev("C16.conversion", "FromImageColor_NRGBA64", <<e.r, e.g, e.b, e.nrgba64>>)})
              \cup (IF e.gray16 = grey THEN {} ELSE {Dev("C16.conversion", "FromImageColor_Gray16", <<e.y, e.gray16>>)})
      [] e.ev = "Find" -> {Dev("C16.findcolor", p, <<e.c, e.kind, e.idx>>) : p \in FindWrong(e, 5000)}
      [] OTHER -> {}

Report(e, devs) == \A d \in devs : PrintT("@@V " \o ToJson(d @@ [l |-> l, ev |-> e.ev]))
Init == l = 1 /\ nviol = 0
Next == /\ l <= Len(Trace) /\ l' = l + 1
        /\ LET e == Trace[l] devs == Step(e) IN Report(e, devs) /\ nviol' = nviol + Cardinality(devs)
Spec == Init /\ [][Next]_vars
Accepted == TLCGet("stats").diameter - 1 = Len(Trace)
Done == l > Len(Trace) => PrintT("@@DONE " \o ToString(nviol) \o " " \o ToString(Len(Trace)))
=============================================================================

SPECIFICATION Spec
CONSTANTS
  Bytes = {1, 2}
  MaxTyped = 3
  Cycles = 2
INVARIANTS Restored RawInside NoLoss Unblocked CallsBounded
PROPERTIES EventuallyStoppable
CHECK_DEADLOCK FALSE

------------------------------- MODULE DevTty -------------------------------
(***************************************************************************)
(* The device Tty of tcell (tty_unix.go) as the terminfo screen uses it:   *)
(* Start saves the line settings and switches to raw mode, input typed at  *)
(* the terminal reaches the blocked reader byte for byte, Drain makes the  *)
(* reader return, Stop restores the saved settings, the resize callback is *)
(* called for a window-size signal while one is registered and the device  *)
(* is started.  Start/Stop cycles repeat (Suspend/Resume).                 *)
(*                                                                         *)
(* Line settings are records of the flags raw mode is about.               *)
(* Model: a terminal user typing, the application's reader, and a          *)
(* controller walking through Start / Drain / Stop cycles.                 *)
(*   Restored   outside Start..Stop the settings are those found at Open   *)
(*   RawInside  between Start and Drain they are raw                       *)
(*   NoLoss     what the reader got, plus what is still queued, is what    *)
(*              was typed while started (nothing lost, nothing reordered)  *)
(*   Unblocked  after Drain the reader is not left blocked                 *)
(***************************************************************************)
EXTENDS DevTtyOps

CONSTANTS Bytes, MaxTyped, Cycles
VARIABLES st, tio, saved, orig, typed, inq, got, reader, cycles, cb, calls, signals

vars == <<st, tio, saved, orig, typed, inq, got, reader, cycles, cb, calls, signals>>
Cooked == [icanon |-> 1, echo |-> 1, isig |-> 1, iexten |-> 1, icrnl |-> 1, ixon |-> 1, istrip |-> 0, inlcr |-> 0,
           opost |-> 1, cs8 |-> 1, parenb |-> 0, vmin |-> 1, vtime |-> 0]

Init == /\ st = "new" /\ tio = Cooked /\ saved = Cooked /\ orig = Cooked /\ typed = <<>> /\ inq = <<>> /\ got = <<>>
        /\ reader = "none" /\ cycles = 0 /\ cb = FALSE /\ calls = 0 /\ signals = 0

Start == /\ st \in {"new", "stopped"} /\ cycles < Cycles
         /\ saved' = tio /\ tio' = Raw(tio) /\ st' = "started" /\ reader' = "blocked" /\ cycles' = cycles + 1
         /\ UNCHANGED <<orig, typed, inq, got, cb, calls, signals>>
Type == /\ st = "started" /\ Len(typed) < MaxTyped
        /\ \E b \in Bytes : typed' = Append(typed, b) /\ inq' = Append(inq, b)
        /\ UNCHANGED <<st, tio, saved, orig, got, reader, cycles, cb, calls, signals>>
Read == /\ reader = "blocked" /\ inq # <<>> /\ st = "started"
        /\ got' = got \o inq /\ inq' = <<>>
        /\ UNCHANGED <<st, tio, saved, orig, typed, reader, cycles, cb, calls, signals>>
Drain == /\ st = "started" /\ st' = "drained" /\ tio' = Drained(tio)
         /\ got' = got \o inq /\ inq' = <<>> /\ reader' = "ended"      \* the pending read returns what there is, then nothing
         /\ UNCHANGED <<saved, orig, typed, cycles, cb, calls, signals>>
Stop == /\ st = "drained" /\ st' = "stopped" /\ tio' = saved
        /\ UNCHANGED <<saved, orig, typed, inq, got, reader, cycles, cb, calls, signals>>
SetCb == /\ cb' = ~cb /\ UNCHANGED <<st, tio, saved, orig, typed, inq, got, reader, cycles, calls, signals>>
Winch == /\ signals < 2 /\ signals' = signals + 1
         /\ calls' = IF cb /\ st \in {"started", "drained"} THEN calls + 1 ELSE calls
         /\ UNCHANGED <<st, tio, saved, orig, typed, inq, got, reader, cycles, cb>>
Next == Start \/ Type \/ Read \/ Drain \/ Stop \/ SetCb \/ Winch
Spec == Init /\ [][Next]_vars /\ WF_vars(Read) /\ WF_vars(Drain) /\ WF_vars(Stop)

Restored == st \in {"new", "stopped"} => tio = orig
RawInside == st = "started" => SameFlags(tio, Raw(orig))
NoLoss == got \o inq = typed
Unblocked == st \in {"drained", "stopped"} => reader = "ended"
CallsBounded == calls <= signals
\* liveness: once started, the device can always be brought back to the restored state
EventuallyStoppable == [](st = "drained" => <>(st = "stopped"))
=============================================================================

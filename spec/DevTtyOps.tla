------------------------------ MODULE DevTtyOps ------------------------------
(* Line settings of a terminal device as records of the flags raw mode is about; shared by the model of the
   device Tty (DevTty) and its trace specification (DevTtyTrace). *)
EXTENDS Integers, Sequences, FiniteSets

\* raw mode as term.MakeRaw defines it (the fields the harness logs)
Raw(t) == [t EXCEPT !.icanon = 0, !.echo = 0, !.isig = 0, !.iexten = 0, !.icrnl = 0, !.ixon = 0, !.istrip = 0, !.inlcr = 0,
                    !.opost = 0, !.cs8 = 1, !.parenb = 0, !.vmin = 1, !.vtime = 0]
Flags == {"icanon", "echo", "isig", "iexten", "icrnl", "ixon", "istrip", "inlcr", "opost", "cs8", "parenb", "vmin", "vtime"}
SameFlags(a, b) == \A f \in Flags : a[f] = b[f]
\* settings after Drain: reads return at once (VMIN = VTIME = 0), everything else still raw
Drained(t) == [Raw(t) EXCEPT !.vmin = 0, !.vtime = 0]

=============================================================================

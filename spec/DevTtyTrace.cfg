SPECIFICATION Spec
INVARIANTS Done
POSTCONDITION Accepted
CHECK_DEADLOCK FALSE

----------------------------- MODULE DevTtyTrace -----------------------------
(***************************************************************************)
(* Trace validation of tcell's device Tty (tty_unix.go) running on the     *)
(* slave side of a pseudo-terminal; the harness (`vh devtty`) plays the    *)
(* terminal on the master side and logs, after every call, the line        *)
(* settings of the pair as the kernel reports them.  Events:               *)
(*   Open(tio)  Start(err, tio)  Input(data, read, ended)  Write(data,     *)
(*   seen)  NotifyResize(on)  Resize(w, h, called, ws)  Drain(err,         *)
(*   reader_ended)  Stop(err, returned, tio)  Close(tio).                  *)
(* These are monitors beyond the listed properties (tags EXTRA.devtty_...), *)
(* except that a Stop that does not return is what C06 forbids of Fini and *)
(* Suspend on a real terminal (tag C06.devtty_stop).                       *)
(***************************************************************************)
EXTENDS DevTtyOps, TLC, Json

Trace == ndJsonDeserialize("trace.ndjson")
VARIABLES l, s, nviol
vars == <<l, s, nviol>>
Dev(tag, part, info) == [tag |-> tag, part |-> part, info |-> info]
InitS == [st |-> "none", orig |-> <<>>, before |-> <<>>, cb |-> FALSE]

Step(e) ==
    CASE e.ev = "Open" -> <<[InitS EXCEPT !.st = "new", !.orig = e.tio, !.before = e.tio], {}>>
      [] e.ev = "Start" ->
           <<[s EXCEPT !.st = "started"],
             (IF e.err = "" THEN {} ELSE {Dev("EXTRA.devtty_start", "error", e.err)})
             \cup (IF SameFlags(e.tio, Raw(s.before)) THEN {} ELSE {Dev("EXTRA.devtty_raw", "not_raw_after_start", e.tio)})>>
      [] e.ev = "Input" ->
           <<s, IF s.st # "started" THEN {}
                ELSE IF e.read = e.data /\ ~e.ended THEN {}
                ELSE {Dev("EXTRA.devtty_input", IF e.ended THEN "reader_ended" ELSE "bytes_differ", <<e.data, e.read>>)}>>
      [] e.ev = "Write" ->
           <<s, IF s.st # "started" \/ (e.err = "" /\ e.n = Len(e.data) /\ e.seen = e.data) THEN {}
                ELSE {Dev("EXTRA.devtty_write", "bytes_differ", <<e.data, e.seen, e.err>>)}>>
      [] e.ev = "NotifyResize" -> <<[s EXCEPT !.cb = e.on], {}>>
      [] e.ev = "Resize" ->
           LET want == <<IF e.w = 0 THEN 80 ELSE e.w, IF e.h = 0 THEN 25 ELSE e.h>> IN
           <<s, (IF e.called = (s.cb /\ s.st \in {"started", "drained"}) THEN {}
                 ELSE {Dev("EXTRA.devtty_resize", IF e.called THEN "callback_without_registration" ELSE "callback_missing", <<s.st, s.cb>>)})
                \cup (IF e.err = "" /\ e.ws = want THEN {} ELSE {Dev("EXTRA.devtty_winsize", "size", <<e.w, e.h, e.ws>>)})>>
      [] e.ev = "Drain" ->
           <<[s EXCEPT !.st = "drained"],
             IF e.err = "" /\ e.reader_ended THEN {} ELSE {Dev("C06.devtty_drain", "reader_still_blocked", e.err)}>>
      [] e.ev = "Stop" ->
           <<[s EXCEPT !.st = "stopped", !.before = e.tio],
             (IF e.returned THEN {} ELSE {Dev("C06.devtty_stop", "did_not_return", 0)})
             \cup (IF ~e.returned \/ SameFlags(e.tio, s.before) THEN {} ELSE {Dev("EXTRA.devtty_restore", "settings_not_restored", <<s.before, e.tio>>)})>>
      [] e.ev = "Close" ->
           <<[s EXCEPT !.st = "closed"],
             IF SameFlags(e.tio, s.orig) THEN {} ELSE {Dev("EXTRA.devtty_restore", "settings_at_close", e.tio)}>>
      [] OTHER -> <<s, {}>>

Report(e, devs) == \A d \in devs : PrintT("@@V " \o ToJson(d @@ [l |-> l, ev |-> e.ev]))
Init == l = 1 /\ s = InitS /\ nviol = 0
Next == /\ l <= Len(Trace) /\ l' = l + 1
        /\ LET e == Trace[l] IN
           IF e.ev = "Reset" THEN s' = InitS /\ nviol' = nviol
           ELSE LET r == Step(e) IN s' = r[1] /\ Report(e, r[2]) /\ nviol' = nviol + Cardinality(r[2])
Spec == Init /\ [][Next]_vars
Accepted == TLCGet("stats").diameter - 1 = Len(Trace)
Done == l > Len(Trace) => PrintT("@@DONE " \o ToString(nviol) \o " " \o ToString(Len(Trace)))
=============================================================================

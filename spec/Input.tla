-------------------------------- MODULE Input --------------------------------
(***************************************************************************)
(* Specification of terminal input decoding (C02 C03 C11 C12): pure        *)
(* operators shared by the design model (InputModel) and the trace spec    *)
(* (InputTrace).                                                           *)
(*                                                                         *)
(* Events are tuples: <<"key", key, rune, mods>>, <<"mouse", x, y, buttons,*)
(* mods>>, <<"paste", 1|0>>, <<"focus", 1|0>>, <<"clip", bytes>>.          *)
(* Modifier mask: Shift 1, Ctrl 2, Alt 4, Meta 8 (tcell's ModMask).        *)
(* Button mask: Button1 1 (primary), Button2 2 (secondary/right),          *)
(* Button3 4 (middle), WheelUp 256, WheelDown 512.                         *)
(***************************************************************************)
EXTENDS Integers, Sequences, FiniteSets

Bit(n, b) == (n \div b) % 2 = 1

---------------------------------------------------------------------------
(* C12: xterm mouse protocol *)

Clip(v, n) == IF v < 0 THEN 0 ELSE IF v > n - 1 THEN n - 1 ELSE v

MouseMods(code) == (IF Bit(code, 4) THEN 1 ELSE 0) + (IF Bit(code, 8) THEN 4 ELSE 0) + (IF Bit(code, 16) THEN 2 ELSE 0)

\* button mask of a press code (motion bit removed); -1 where the statement is silent
PressButtons(code) ==
    IF code >= 128 THEN -1
    ELSE IF Bit(code, 64) THEN (IF code % 4 = 0 THEN 256 ELSE IF code % 4 = 1 THEN 512 ELSE -1)
    ELSE CASE code % 4 = 0 -> 1 [] code % 4 = 1 -> 4 [] code % 4 = 2 -> 2 [] OTHER -> 0

\* held: 0 no button held, 1 a button is held, 2 unknown.
\* Returns [b |-> expected button mask or -1 (unconstrained), h |-> new held]
MouseExpect(form, code, release, held) ==
    LET motion == Bit(code, 32)
        base == IF motion THEN code - 32 ELSE code
        wheel == Bit(base, 64) /\ base < 128
        x11release == form = "x11" /\ base < 64 /\ base % 4 = 3 /\ ~motion
    IN IF release \/ x11release THEN [b |-> 0, h |-> 0]
       ELSE IF base >= 128 THEN [b |-> -1, h |-> 2]
       ELSE IF motion THEN
            IF wheel THEN [b |-> -1, h |-> held]
            ELSE IF base % 4 = 3 THEN [b |-> 0, h |-> held]          \* motion, no button
            ELSE IF held = 1 THEN [b |-> PressButtons(base), h |-> 1]  \* drag keeps the button
            ELSE IF held = 0 /\ form = "sgr" THEN [b |-> 0, h |-> 0]  \* SGR: button bits in motion, but nothing is held
            ELSE [b |-> -1, h |-> held]                              \* whether a button is held is not known
       ELSE IF wheel THEN [b |-> PressButtons(base), h |-> held]
       ELSE IF base % 4 = 3 THEN [b |-> -1, h |-> 2]                 \* "no button" press code: not defined
       ELSE [b |-> PressButtons(base), h |-> 1]

---------------------------------------------------------------------------
(* C03: which (key, modifiers) a terminal description allows for a sequence *)

\* xterm modifier parameter 2..16 -> tcell mask
XtermMods(m) == LET v == m - 1 IN
    (IF Bit(v, 1) THEN 1 ELSE 0) + (IF Bit(v, 2) THEN 4 ELSE 0) + (IF Bit(v, 4) THEN 2 ELSE 0) + (IF Bit(v, 8) THEN 8 ELSE 0)

IsPrefix(a, b) == Len(a) <= Len(b) /\ SubSeq(b, 1, Len(a)) = a

DigitsOf(n) == IF n < 10 THEN <<48 + n>> ELSE <<48 + (n \div 10), 48 + (n % 10)>>

\* the XTerm-modified forms of a base sequence: set of <<sequence, m>>
XtermForms(seq) ==
    IF Len(seq) >= 4 /\ seq[1] = 27 /\ seq[2] = 91 /\ seq[Len(seq)] = 126            \* ESC [ n ~
    THEN { <<SubSeq(seq, 1, Len(seq) - 1) \o <<59>> \o DigitsOf(m) \o <<126>>, m>> : m \in 2..16 }
    ELSE IF Len(seq) = 3 /\ seq[1] = 27 /\ seq[2] = 79                                \* ESC O X
    THEN { <<<<27, 91, 49, 59>> \o DigitsOf(m) \o <<seq[3]>>, m>> : m \in 2..16 }
    ELSE {}

\* function keys above F12 double as modified F1..F12 (terminfo convention)
FnAlias(k, kF1) ==
    LET n == k - kF1 + 1 IN
    IF n >= 13 /\ n <= 24 THEN {<<kF1 + n - 13, 1>>}
    ELSE IF n >= 25 /\ n <= 36 THEN {<<kF1 + n - 25, 2>>}
    ELSE IF n >= 37 /\ n <= 48 THEN {<<kF1 + n - 37, 3>>}
    ELSE IF n >= 49 /\ n <= 60 THEN {<<kF1 + n - 49, 4>>}
    ELSE IF n >= 61 /\ n <= 63 THEN {<<kF1 + n - 61, 5>>}
    ELSE {}

\* c: Config record of the keys mode; caps[i] = <<name, seq, key, mods>>
CapSet(c) == {c.caps[i] : i \in 1..Len(c.caps)}
ModifiableKeys(c) == {c.kUp, c.kDown, c.kRight, c.kLeft, c.kInsert, c.kDelete, c.kPgUp, c.kPgDn, c.kHome, c.kEnd}
                     \cup {c.kF1 + i : i \in 0..11}

KeypadAliases(c) ==
    { <<<<27, 91, 65>>, c.kUp>>, <<<<27, 91, 66>>, c.kDown>>, <<<<27, 91, 67>>, c.kRight>>, <<<<27, 91, 68>>, c.kLeft>>,
      <<<<27, 91, 70>>, c.kEnd>>, <<<<27, 91, 72>>, c.kHome>>, <<<<27, 91, 51, 126>>, c.kDelete>>,
      <<<<27, 91, 49, 126>>, c.kHome>>, <<<<27, 91, 52, 126>>, c.kEnd>>, <<<<27, 91, 53, 126>>, c.kPgUp>>,
      <<<<27, 91, 54, 126>>, c.kPgDn>>, <<<<27, 79, 65>>, c.kUp>>, <<<<27, 79, 66>>, c.kDown>>,
      <<<<27, 79, 67>>, c.kRight>>, <<<<27, 79, 68>>, c.kLeft>>, <<<<27, 79, 72>>, c.kHome>> }

Acceptable(c, seq) ==
    LET caps == CapSet(c) IN
    { <<p[3], p[4]>> : p \in {q \in caps : q[2] = seq /\ q[3] >= 0} }
    \cup UNION { FnAlias(p[3], c.kF1) : p \in {q \in caps : q[2] = seq /\ q[4] = 0 /\ q[3] >= c.kF1 + 12} }
    \cup (IF c.xtermmods
          THEN UNION { { <<p[3], XtermMods(f[2])>> : f \in {g \in XtermForms(p[2]) : g[1] = seq} }
                       : p \in {q \in caps : q[4] = 0 /\ q[3] \in ModifiableKeys(c)} }
          ELSE {})
    \* the xterm keypad aliases stand in where the description says nothing about the sequence: its own keys win
    \cup (IF c.keypad /\ {q \in caps : q[2] = seq /\ q[3] >= 0} = {}
          THEN { <<a[2], 0>> : a \in {b \in KeypadAliases(c) : b[1] = seq} } ELSE {})
    \cup (IF Len(seq) = 1 /\ seq[1] < 32
          THEN {<<seq[1], IF seq[1] \in {8, 9, 13, 27} THEN 0 ELSE 2>>} ELSE {})
    \cup (IF seq = <<127>> THEN {<<127, 0>>} ELSE {})            \* a single DEL byte: Backspace2
    \cup (IF seq = <<27, 91, 50, 48, 48, 126>> /\ c.hasPaste THEN {<<c.kPasteStart, 0>>} ELSE {})
    \cup (IF seq = <<27, 91, 50, 48, 49, 126>> /\ c.hasPaste THEN {<<c.kPasteEnd, 0>>} ELSE {})

\* what a decode of seq may deliver: as the table allows, except that a single DEL byte is Backspace2 whatever
\* capability (kbs, kdch1) names that byte
DecodeAcceptable(c, seq) == IF seq = <<127>> THEN {<<127, 0>>} ELSE Acceptable(c, seq)
=============================================================================

SPECIFICATION Spec
CONSTANTS
  MaxLen = 5
  FocusGuard = TRUE
INVARIANTS ChunkIndependent Drained Progress
CHECK_DEADLOCK FALSE

SPECIFICATION Spec
CONSTANTS
  MaxLen = 5
  MaxCuts = 8
  ALPHA = "focus"
  LEAD = "any"
  FocusGuard = TRUE
  SgrStrict = TRUE
INVARIANTS ChunkIndependent Drained Progress NoSwallow
CHECK_DEADLOCK FALSE

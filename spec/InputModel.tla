----------------------------- MODULE InputModel -----------------------------
(***************************************************************************)
(* Design model of the input tokenizer (C02): the loop of                  *)
(* collectEventsFromInput - parsers tried in priority order, each          *)
(* answering complete / partial / no, a fallback when nothing is partial   *)
(* or the escape timer has expired - over a small byte alphabet, a key     *)
(* table that contains a key of which the focus report is a proper prefix  *)
(* (the rxvt situation), printable runes and the two focus reports.        *)
(*                                                                         *)
(* TLC enumerates every byte string up to MaxLen and every partition of it *)
(* into reads (initial states) and checks                                  *)
(*   ChunkIndependent  the events and the final buffer do not depend on    *)
(*                     the partition,                                      *)
(*   Drained           after the expiry nothing is buffered,               *)
(*   Progress          a decode never lengthens the buffer.                *)
(* FocusGuard = FALSE is the loop as found (a focus report is accepted     *)
(* although a key sequence is still partial): refuted.                     *)
(***************************************************************************)
EXTENDS Integers, Sequences, FiniteSets, TLC

CONSTANTS MaxLen, FocusGuard

ESC == 27
Alphabet == {ESC, 91, 79, 97, 73}                      \* ESC [ O a I
Keys == { <<ESC, 91, 79, 97>>, <<ESC, 79, 97>>, <<ESC, 91, 97>> }   \* Ctrl-Up (rxvt), SS3 a, CSI a
Focus == { <<ESC, 91, 73>>, <<ESC, 91, 79>> }

IsPrefix(a, b) == Len(a) <= Len(b) /\ SubSeq(b, 1, Len(a)) = a
Drop(s, n) == SubSeq(s, n + 1, Len(s))

\* one pass of the loop: st = [buf, esc, out]; returns the state after as many tokens as can be taken
RECURSIVE Collect(_, _)
Collect(st, expire) ==
    IF st.buf = <<>> THEN st
    ELSE
    LET b == st.buf
        \* printable runes (everything but ESC here)
        runeC == b[1] # ESC
        keyC == {k \in Keys : IsPrefix(k, b)}
        keyP == \E k \in Keys : IsPrefix(b, k) /\ b # k
        focC == {f \in Focus : IsPrefix(f, b)}
        focP == \E f \in Focus : IsPrefix(b, f) /\ b # f
        focTried == ~FocusGuard \/ ~keyP \/ expire
        partial == keyP \/ (focTried /\ focP /\ focC = {})
    IN IF runeC THEN Collect([buf |-> Drop(b, 1), esc |-> FALSE, out |-> Append(st.out, <<"rune", b[1], st.esc>>)], expire)
       ELSE IF keyC # {} THEN LET k == CHOOSE k \in keyC : TRUE IN
            Collect([buf |-> Drop(b, Len(k)), esc |-> FALSE, out |-> Append(st.out, <<"key", k, st.esc>>)], expire)
       ELSE IF focTried /\ focC # {} THEN LET f == CHOOSE f \in focC : TRUE IN
            Collect([buf |-> Drop(b, Len(f)), esc |-> st.esc, out |-> Append(st.out, <<"focus", f, FALSE>>)], expire)
       ELSE IF ~partial \/ expire THEN
            \* fallback: a lone ESC is the Esc key, ESC followed by something is an Alt prefix
            IF Len(b) = 1 THEN Collect([buf |-> <<>>, esc |-> FALSE, out |-> Append(st.out, <<"esc", ESC, FALSE>>)], expire)
            ELSE Collect([buf |-> Drop(b, 1), esc |-> TRUE, out |-> st.out], expire)
       ELSE st                                            \* wait for more input

\* feed the reads one after the other, then let the timer expire
RECURSIVE FeedAll(_, _)
FeedAll(st, chunks) == IF chunks = <<>> THEN Collect(st, TRUE)
                       ELSE FeedAll(Collect([st EXCEPT !.buf = @ \o chunks[1]], FALSE), Tail(chunks))

Strings == UNION {[1..n -> Alphabet] : n \in 1..MaxLen}
\* partitions of s: subsets of the cut positions 1..Len(s)-1
RECURSIVE Cut(_, _, _)
Cut(s, cuts, from) == IF from > Len(s) THEN <<>>
                      ELSE LET nxt == {c \in cuts : c >= from} IN
                           IF nxt = {} THEN <<SubSeq(s, from, Len(s))>>
                           ELSE LET c == CHOOSE c \in nxt : \A d \in nxt : c <= d IN
                                <<SubSeq(s, from, c)>> \o Cut(s, cuts, c + 1)

VARIABLES s, cuts, done
vars == <<s, cuts, done>>
Empty == [buf |-> <<>>, esc |-> FALSE, out |-> <<>>]
Init == s \in Strings /\ cuts \in SUBSET (1..(Len(s) - 1)) /\ done = FALSE
Next == ~done /\ done' = TRUE /\ UNCHANGED <<s, cuts>>
Spec == Init /\ [][Next]_vars

Whole == FeedAll(Empty, <<s>>)
Split == FeedAll(Empty, Cut(s, cuts, 1))
ChunkIndependent == Split.out = Whole.out
Drained == Split.buf = <<>> /\ Whole.buf = <<>>
Progress == \A n \in 1..Len(s) : Len(Collect([Empty EXCEPT !.buf = SubSeq(s, 1, n)], FALSE).buf) <= n
=============================================================================

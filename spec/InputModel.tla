----------------------------- MODULE InputModel -----------------------------
(***************************************************************************)
(* Design model of the input tokenizer (C02).  The tokenizer itself is     *)
(* Tokenizer.tla (the loop of collectEventsFromInput and its parsers);     *)
(* here TLC builds every byte string up to MaxLen over a small alphabet    *)
(* and every partition of it into reads with at most MaxCuts cuts, feeds   *)
(* both the whole string and the partition, and checks                     *)
(*   ChunkIndependent  tokens and final buffer do not depend on the reads, *)
(*   Drained           after the expiry nothing is buffered,               *)
(*   Progress          a decode never lengthens the buffer,                *)
(*   NoSwallow         every byte is attributed to exactly one token and   *)
(*                     every token consumed a word of its own language     *)
(*                     (a report never swallows bytes that are not its).   *)
(* The key table holds a key of which the focus report is a proper prefix  *)
(* (the rxvt situation).  ALPHA selects the alphabet: "focus" {ESC [ O a I}*)
(* or "mouse" {ESC [ < ; M a} (long enough strings contain whole SGR and   *)
(* X11 reports, with foreign bytes in every position).                     *)
(* FocusGuard = FALSE and SgrStrict = FALSE are the loop as it was found:  *)
(* TLC refutes ChunkIndependent resp. NoSwallow for them.                  *)
(***************************************************************************)
EXTENDS Tokenizer, TLC

CONSTANTS MaxLen, MaxCuts, ALPHA, LEAD, FocusGuard, SgrStrict

Alphabet == IF ALPHA = "focus" THEN {27, 91, 79, 97, 73} ELSE {27, 91, 60, 59, 77, 97}
L == [keys |-> { [seq |-> <<27, 91, 79, 97>>, key |-> 1, mod |-> 0],      \* Ctrl-Up (rxvt)
                 [seq |-> <<27, 79, 97>>, key |-> 2, mod |-> 0],          \* SS3 a
                 [seq |-> <<27, 91, 97>>, key |-> 3, mod |-> 0] },        \* CSI a
      mouse |-> TRUE, clip |-> FALSE, ps |-> -1, pe |-> -2, guard |-> FocusGuard, strict |-> SgrStrict, utf8 |-> FALSE]

\* partitions of s: subsets of the cut positions 1..Len(s)-1
RECURSIVE Cut(_, _, _)
Cut(s, cuts, from) == IF from > Len(s) THEN <<>>
                      ELSE LET nxt == {c \in cuts : c >= from} IN
                           IF nxt = {} THEN <<SubSeq(s, from, Len(s))>>
                           ELSE LET c == CHOOSE c \in nxt : \A d \in nxt : c <= d IN
                                <<SubSeq(s, from, c)>> \o Cut(s, cuts, c + 1)

VARIABLES s, cuts, done
vars == <<s, cuts, done>>
Init == s = <<>> /\ cuts = {} /\ done = FALSE
Extend == /\ ~done /\ Len(s) < MaxLen
          /\ \E c \in Alphabet : (s = <<>> /\ LEAD = "esc" => c = 27) /\ s' = Append(s, c)
          /\ UNCHANGED <<cuts, done>>
Decide == /\ ~done /\ s # <<>>
          /\ \E cs \in SUBSET (1..(Len(s) - 1)) : Cardinality(cs) <= MaxCuts /\ cuts' = cs
          /\ done' = TRUE /\ UNCHANGED s
Next == Extend \/ Decide
Spec == Init /\ [][Next]_vars

Whole == FeedAll(L, TEmpty, <<s>>)
Split == FeedAll(L, TEmpty, Cut(s, cuts, 1))
ChunkIndependent == done => Split.out = Whole.out
Drained == done => Split.buf = <<>> /\ Whole.buf = <<>>
Progress == done /\ cuts = {} => \A n \in 1..Len(s) : Len(Collect(L, [TEmpty EXCEPT !.buf = SubSeq(s, 1, n)], FALSE).buf) <= n
NoSwallow == done => Attributed(L, Whole, s) /\ Attributed(L, Split, s)
=============================================================================

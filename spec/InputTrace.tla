----------------------------- MODULE InputTrace -----------------------------
(***************************************************************************)
(* Trace validation of the input decoder (C02 C03 C11 C12).  The log is    *)
(* written by `vh input`: the real collectEventsFromInput (verif hook      *)
(* VerifParser) is fed byte strings, split into reads in many ways, and    *)
(* every decode is logged with the events it produced and the bytes left.  *)
(*                                                                         *)
(* mode "chunk" (C02): Tok = decode of each token alone, Run = decode of   *)
(*   the whole string under one partition (cuts = <<>> is the single read).*)
(*   The single-read decode of every string is also predicted by the       *)
(*   tokenizer model (Tokenizer.tla) from the terminal's key table.        *)
(* mode "keys"  (C03): Entry = one key-table entry (sorted), Decode /      *)
(*   AltDecode / EscDecode / PairDecode = decodes of capability sequences. *)
(* mode "mouse" (C12): Mouse = one report, MouseSeq starts a new decoder.  *)
(* mode "text"  (C11): Text = an encoded string of printable characters.   *)
(***************************************************************************)
EXTENDS Input, Tokenizer, TLC, Json

Trace == ndJsonDeserialize("trace.ndjson")

VARIABLES l, cfg, st, nviol
vars == <<l, cfg, st, nviol>>

\* st: per-mode scratch state
InitSt == [ref |-> <<>>, sid |-> -1, tokacc |-> <<>>, ntok |-> 0,      \* chunk
           prev |-> <<>>, dec |-> <<>>, tab |-> {},                     \* keys: previous entry, decodes, table
           held |-> 0]                                                  \* mouse

Dev(tag, part, info) == [tag |-> tag, part |-> part, info |-> info]

Robust(e, tag) ==
    (IF e.panic THEN {Dev(tag \o ".panic", "panic", e.bytes)} ELSE {})
    \cup (IF e.stall THEN {Dev(tag \o ".stall", "stall", e.bytes)} ELSE {})

---------------------------------------------------------------------------
(* C02 *)

\* the language of the recorded terminal, for the tokenizer model
LangOf(c) == [keys |-> {[seq |-> c.keys[i][1], key |-> c.keys[i][2], mod |-> c.keys[i][3]] : i \in 1..Len(c.keys)},
              mouse |-> c.mouse, clip |-> c.clip, ps |-> c.ps, pe |-> c.pe, guard |-> TRUE, strict |-> TRUE, utf8 |-> TRUE]
\* mouse and clipboard events are compared by kind only (their content is C12's and the clipboard's matter);
\* an OSC 52 reply with undecodable base64 is consumed without an event
NormEvs(evs) == LET k == SelectSeq(evs, LAMBDA x : x[1] # "clip")
                IN [i \in 1..Len(k) |-> IF k[i][1] = "mouse" THEN <<"mouse">> ELSE k[i]]
Predicted(e) ==
    IF "keys" \notin DOMAIN cfg \/ "nomodel" \in DOMAIN e THEN {}
    ELSE LET d == Decode(LangOf(cfg), e.bytes) IN
         IF d.amb \/ d.hi THEN {}
         ELSE (IF NormEvs(Events(d)) = NormEvs(e.evs) THEN {}
               ELSE {Dev("C02.model", "whole", <<e.bytes, NormEvs(Events(d))>>)})
              \cup (IF Attributed(LangOf(cfg), d, e.bytes) THEN {} ELSE {Dev("EXTRA.model_attribution", "whole", e.bytes)})

ChunkStep(e) ==
    IF e.ev = "Tok" THEN
        <<[st EXCEPT !.tokacc = IF st.sid = e.s THEN @ \o e.evs ELSE e.evs, !.sid = e.s,
                     !.ntok = IF st.sid = e.s THEN @ + 1 ELSE 1],
          Robust(e, "C02")
          \cup (IF e.left = 0 THEN {} ELSE {Dev("C02.drain", "token", e.bytes)})>>
    ELSE IF e.ev = "Run" THEN
        IF e.cuts = <<>> THEN
            <<[st EXCEPT !.ref = e.evs, !.sid = e.s],
              Robust(e, "C02")
              \cup (IF e.left = 0 THEN {} ELSE {Dev("C02.drain", "whole", e.bytes)})
              \cup (IF e.tokens = 0 \/ st.sid # e.s \/ e.evs = st.tokacc THEN {}
                    ELSE {Dev("C02.swallow", "concatenation", e.bytes)})
              \cup Predicted(e)>>
        ELSE
            <<st, Robust(e, "C02")
              \cup (IF e.left = 0 THEN {} ELSE {Dev("C02.drain", "split", <<e.bytes, e.cuts>>)})
              \cup (IF e.evs = st.ref THEN {} ELSE {Dev("C02.chunk", "split", <<e.bytes, e.cuts>>)})>>
    ELSE <<st, {}>>

---------------------------------------------------------------------------
(* C03 *)

OneKey(evs) == Len(evs) = 1 /\ evs[1][1] = "key"

\* a decode of a capability / table sequence is right when it is one event for an acceptable key
DecodeOK(c, seq, evs) ==
    LET acc == DecodeAcceptable(c, seq) IN
    \/ /\ OneKey(evs) /\ <<evs[1][2], evs[1][4]>> \in acc
       /\ (Len(seq) = 1 => evs[1][3] = seq[1])
    \/ /\ Len(evs) = 1 /\ evs[1][1] = "paste"
       /\ <<(IF evs[1][2] = 1 THEN c.kPasteStart ELSE c.kPasteEnd), 0>> \in acc

\* is seq defined by the description itself (a capability), as opposed to an alias tcell adds
IsCap(c, seq) == \E i \in 1..Len(c.caps) : c.caps[i][2] = seq

WithAlt(ev) == IF ev[1] = "key" THEN <<"key", ev[2], ev[3], IF Bit(ev[4], 4) THEN ev[4] ELSE ev[4] + 4>> ELSE ev

KeysStep(e) ==
    CASE e.ev = "Entry" ->
           <<[st EXCEPT !.prev = e.seq, !.tab = @ \cup {e.seq}],
             (IF <<e.key, e.mod>> \in Acceptable(cfg, e.seq) THEN {}
              ELSE {Dev("C03.table", "entry_not_acceptable", <<e.seq, e.key, e.mod>>)})
             \cup (IF st.prev # <<>> /\ st.prev # e.seq /\ IsPrefix(st.prev, e.seq) /\ st.prev # <<27>>
                   THEN {Dev("C03.prefix", "proper_prefix", <<st.prev, e.seq>>)} ELSE {})>>
      [] e.ev = "Decode" ->
           <<[st EXCEPT !.dec = Append(@, <<e.bytes, e.evs>>)],
             Robust(e, "C03")
             \cup (IF DecodeOK(cfg, e.bytes, e.evs) /\ e.left = 0 THEN {}
                   ELSE {Dev("C03.decode", IF IsCap(cfg, e.bytes) THEN "capability" ELSE "alias", <<e.bytes, e.evs>>)})>>
      [] e.ev = "AltDecode" ->
           \* ESC followed by a key: that key with Alt
           LET plain == {d \in {st.dec[i] : i \in 1..Len(st.dec)} : d[1] = e.bytes} IN
           <<st, Robust(e, "C03")
             \cup (IF (<<27>> \o e.bytes) \in st.tab THEN {}   \* ESC seq is a key of its own
                   ELSE IF \E d \in plain : Len(d[2]) = 1 /\ e.evs = <<WithAlt(d[2][1])>> THEN {}
                   ELSE IF \E d \in plain : Len(d[2]) # 1 THEN {}      \* the plain decode is already reported
                   ELSE {Dev("C03.alt", "esc_prefix", <<e.bytes, e.evs>>)})>>
      [] e.ev = "EscDecode" ->
           <<st, IF e.evs = <<<<"key", 27, 0, 0>>>> /\ e.left = 0 THEN {} ELSE {Dev("C03.esc", "lone_esc", e.evs)}>>
      [] e.ev = "AfterEsc" ->
           \* after a lone ESC (or ESC ESC) was delivered by the timeout, or after a complete Alt+key sequence, a sequence
           \* decodes as on a fresh decoder
           LET plain == {d \in {st.dec[i] : i \in 1..Len(st.dec)} : d[1] = e.bytes} IN
           <<st, Robust(e, "C03")
             \cup (IF plain = {} \/ \E d \in plain : e.evs = d[2] THEN {}
                   ELSE {Dev("C03.esc", "state_after_earlier_input", <<e.prior, e.bytes, e.evs>>)})>>
      [] e.ev = "LiveSplit" ->
           \* a key typed at a live screen in two reads within the timeout, a resize notification between them
           LET plain == {d \in {st.dec[i] : i \in 1..Len(st.dec)} : d[1] = e.bytes} IN
           <<st, IF e.late \/ plain = {} \/ \E d \in plain, k \in 1..Len(e.tries) : e.tries[k] = d[2] THEN {}
                 ELSE {Dev("C03.decode", "live_split_with_resize", <<e.bytes, e.cuts, e.tries>>)}>>
      [] e.ev = "PairDecode" ->
           LET a == SubSeq(e.bytes, 1, e.cuts[1])
               b == SubSeq(e.bytes, e.cuts[1] + 1, Len(e.bytes))
               da == {d \in {st.dec[i] : i \in 1..Len(st.dec)} : d[1] = a}
               db == {d \in {st.dec[i] : i \in 1..Len(st.dec)} : d[1] = b}
           IN <<st, IF \E x \in da, y \in db : e.evs = x[2] \o y[2] THEN {}
                    ELSE {Dev("C03.concat", "pair", <<a, b>>)}>>
      [] e.ev = "Unstable" -> <<st, {Dev("C03.unstable", "iteration_order", e.seq)}>>
      [] OTHER -> <<st, {}>>

---------------------------------------------------------------------------
(* C12 *)

MouseStep(e) ==
    IF e.ev = "MouseSeq" THEN <<[st EXCEPT !.held = 0], {}>>
    ELSE IF e.ev = "MouseThen" THEN
         \* a report at (3,4) followed in the same read by the character z or by a second report at (6,2): a report takes
         \* its own bytes only
         <<st, IF Len(e.evs) = 2 /\ e.left = 0 /\ e.evs[1][1] = "mouse" /\ e.evs[1][2] = 2 /\ e.evs[1][3] = 3
                  /\ (IF e.next = "char" THEN e.evs[2][1] = "key" /\ e.evs[2][3] = 122 /\ e.evs[2][4] = 0
                      ELSE e.evs[2][1] = "mouse" /\ e.evs[2][2] = 5 /\ e.evs[2][3] = 1)
               THEN {} ELSE {Dev("C12.count", "report_and_what_follows_it", <<e.form, e.next, e.intro8, e.evs>>)}>>
    ELSE IF e.ev # "Mouse" THEN <<st, {}>>
    ELSE
    LET held0 == IF e.fresh THEN 0 ELSE st.held
        x == MouseExpect(e.form, e.btn, e.fin = 109, held0)
        one == Len(e.evs) = 1 /\ e.evs[1][1] = "mouse"
        code == IF Bit(e.btn, 32) THEN e.btn - 32 ELSE e.btn
    IN <<[st EXCEPT !.held = x.h],
         Robust(e, "C12")
         \cup (IF one /\ e.left = 0 THEN {} ELSE {Dev("C12.count", e.form, <<e.btn, e.x, e.y, e.fin>>)})
         \cup (IF ~one THEN {}
               ELSE (IF e.evs[1][2] = Clip(e.x - 1, cfg.W) /\ e.evs[1][3] = Clip(e.y - 1, cfg.H) THEN {}
                     ELSE {Dev("C12.position", e.form, <<e.btn, e.x, e.y, e.evs[1][2], e.evs[1][3]>>)})
                    \cup (IF x.b = -1 \/ e.evs[1][4] = x.b THEN {}
                          ELSE {Dev("C12.buttons", e.form, <<e.btn, e.fin, held0, e.evs[1][4], x.b>>)})
                    \cup (IF e.evs[1][5] = MouseMods(e.btn) THEN {}
                          ELSE {Dev("C12.modifiers", e.form, <<e.btn, e.evs[1][5]>>)}))>>

---------------------------------------------------------------------------
(* C11 *)

FocusDir(e) == IF "fin" \in DOMAIN e THEN e.fin ELSE 1
TextExpected(c, e) ==
    (IF e.paste THEN <<<<"paste", 1>>>> ELSE <<>>)
    \o [i \in 1..Len(e.src) |-> <<"key", c.kRune, e.src[i], 0>>]
    \o (IF e.paste THEN <<<<"paste", 0>>>> ELSE <<>>)
    \o (IF e.focus THEN <<<<"focus", FocusDir(e)>>>> ELSE <<>>)
    \o (IF "focus2" \in DOMAIN e /\ e.focus2 THEN <<<<"focus", FocusDir(e)>>>> ELSE <<>>)     \* every report is an event

\* the character set of a POSIX locale setting: LC_ALL, else LC_CTYPE, else LANG; "C" and "POSIX" are US-ASCII; otherwise
\* the codeset between '.' and an optional '@modifier', UTF-8 when the locale names none (strings as byte sequences)
RECURSIVE Find(_, _, _)
Find(sq, b, i) == IF i > Len(sq) THEN 0 ELSE IF sq[i] = b THEN i ELSE Find(sq, b, i + 1)
LocaleCharset(lcall, lctype, lang) ==
    LET loc == IF lcall # <<>> THEN lcall ELSE IF lctype # <<>> THEN lctype ELSE lang
        at == Find(loc, 64, 1)
        base == IF at = 0 THEN loc ELSE SubSeq(loc, 1, at - 1)
        dot == Find(base, 46, 1)
    IN IF loc \in {<<67>>, <<80, 79, 83, 73, 88>>} THEN <<85, 83, 45, 65, 83, 67, 73, 73>>     \* US-ASCII
       ELSE IF dot = 0 THEN <<85, 84, 70, 45, 56>>                                              \* UTF-8
       ELSE SubSeq(base, dot + 1, Len(base))

LocaleStep(e) ==
    LET want == LocaleCharset(e.lc_all, e.lc_ctype, e.lang) IN
    <<st, (IF e.initerr # "" THEN
               \* a codeset name no encoding is registered under: Init refuses, nothing to compare - except for the names
               \* tcell always knows (UTF-8, utf8, US-ASCII, ASCII, ISO646, any case), asked for by the bare harness
               (IF "always" \in DOMAIN e /\ e.always THEN {Dev("C11.locale", "builtin_charset_refused", <<e.lc_all, e.lc_ctype, e.lang, e.initerr>>)} ELSE {})
           ELSE IF e.charset = want THEN {}
           ELSE {Dev("C11.locale", "charset", <<e.lc_all, e.lc_ctype, e.lang, e.charset, want>>)})
          \cup (IF e.initerr = "" /\ e.registered /\ e.got # e.src
                THEN {Dev("C11.locale", "text", <<e.lc_all, e.lc_ctype, e.lang, e.src, e.got>>)} ELSE {})>>

TextStep(e) ==
    IF e.ev = "Locale" THEN LocaleStep(e)
    ELSE IF e.ev # "Text" THEN <<st, {}>>
    ELSE <<st, Robust(e, "C11")
           \cup (IF e.evs = TextExpected(cfg, e) /\ e.left = 0 THEN {}
                 \* U+FFFD typed at the terminal: a deviation explained exactly by that character being dropped is a class
                 \* of its own (finding F42: the decoder's error marker and the character are not told apart)
                 ELSE IF e.left = 0 /\ (\E i \in 1..Len(e.src) : e.src[i] = 65533)
                         /\ e.evs = TextExpected(cfg, [e EXCEPT !.src = SelectSeq(e.src, LAMBDA r : r # 65533)])
                 THEN {Dev("C11.replacement_character_dropped", IF e.cuts = <<>> THEN "whole" ELSE "split", <<cfg.cs, e.src, e.cuts>>)}
                 ELSE {Dev("C11.text", IF e.cuts = <<>> THEN "whole" ELSE "split", <<cfg.cs, e.src, e.cuts>>)})>>

---------------------------------------------------------------------------

Report(e, devs) ==
    \A d \in devs : PrintT("@@V " \o ToJson(d @@ [l |-> l, ev |-> e.ev, term |-> cfg.term]))

Init == l = 1 /\ cfg = [term |-> "", mode |-> ""] /\ st = InitSt /\ nviol = 0

Next ==
    /\ l <= Len(Trace)
    /\ l' = l + 1
    /\ LET e == Trace[l] IN
       IF e.ev = "Reset" THEN cfg' = [term |-> "", mode |-> ""] /\ st' = InitSt /\ nviol' = nviol
       ELSE IF e.ev = "Config" THEN cfg' = e /\ st' = InitSt /\ nviol' = nviol
       ELSE LET r == CASE cfg.mode = "chunk" -> ChunkStep(e)
                       [] cfg.mode = "keys"  -> KeysStep(e)
                       [] cfg.mode = "mouse" -> MouseStep(e)
                       [] cfg.mode = "text"  -> TextStep(e)
                       [] OTHER -> <<st, {}>>
            IN /\ st' = r[1] /\ cfg' = cfg
               /\ Report(e, r[2])
               /\ nviol' = nviol + Cardinality(r[2])

Spec == Init /\ [][Next]_vars

Accepted == TLCGet("stats").diameter - 1 = Len(Trace)
Done == l > Len(Trace) => PrintT("@@DONE " \o ToString(nviol) \o " " \o ToString(Len(Trace)))
=============================================================================

SPECIFICATION Spec
CONSTANTS
  MaxOps = 8
  HasMouse = TRUE
  HasShapes = TRUE
  HasCivis = TRUE
  HasRmam = TRUE
  AltScreen = TRUE
  HasTitle = TRUE
  ShapeFromSent = TRUE
  WriteWhenIdle = FALSE
  GEN = FALSE
VIEW View
INVARIANTS TypeOK RestoredOnLeave ModesOnResume OwnedWhileRunning
CHECK_DEADLOCK FALSE

----------------------------- MODULE ModesModel -----------------------------
(***************************************************************************)
(* Design model of the terminfo screen's life cycle and terminal modes     *)
(* (C04): tscreen.go's engage / disengage / finish and the mode calls      *)
(* (EnableMouse, DisableMouse, EnablePaste, DisablePaste, EnableFocus,     *)
(* DisableFocus, SetCursorStyle, ShowCursor, HideCursor, SetTitle, Show)   *)
(* are transcribed over the mode registers of the reference terminal:      *)
(* alternate screen, keypad-application, auto-margin, the four mouse       *)
(* private modes, bracketed paste, focus reporting, cursor visibility and  *)
(* shape, rendition, and the title stack.                                  *)
(*                                                                         *)
(* What the application asked for (req) and what the terminal was told     *)
(* (reg) are separate: the screen remembers requests made while it is      *)
(* suspended and applies them at Resume; at Suspend / Fini it must undo    *)
(* what the terminal was actually told - which is not always what was      *)
(* last requested (a cursor shape requested after the last draw has not    *)
(* been sent; a shape that was sent stays on the terminal when the default *)
(* is requested but not yet drawn).                                        *)
(*                                                                         *)
(* TLC explores every sequence of calls up to MaxOps and checks            *)
(*   RestoredOnLeave  when Suspend or Fini returns every register is back  *)
(*                    at its value before Init (cursor visible, default    *)
(*                    shape, rendition reset, modes off, primary screen,   *)
(*                    auto-margin on, title restored);                     *)
(*   ModesOnResume    after Resume, and after every mode call on a running *)
(*                    screen, exactly the requested modes are on;          *)
(*   QuietWhenDone    after Fini nothing changes any more.                 *)
(* Terminal variants (constants): HasMouse (mouse, paste and focus strings *)
(* exist - the xterm family), HasShapes (cursor style strings), HasCivis,  *)
(* HasRmam, AltScreen (TCELL_ALTSCREEN not disabled), HasTitle.            *)
(* ShapeFromSent = FALSE and WriteWhenIdle = TRUE are the models of the     *)
(* code as it was found (the shape reset decided from the requested style; *)
(* mode calls written to the terminal of a suspended screen): both are     *)
(* refuted by TLC.                                                         *)
(* With GEN, the history of every transition into Suspend / Resume / Fini  *)
(* and of every full-length behaviour is printed for replay on the real    *)
(* screen (vh screen --behaviours), whose output the reference terminal    *)
(* interprets under TScreenTrace.                                          *)
(***************************************************************************)
EXTENDS Integers, Sequences, FiniteSets, TLC, Json

CONSTANTS MaxOps, HasMouse, HasShapes, HasCivis, HasRmam, AltScreen, HasTitle, ShapeFromSent, WriteWhenIdle, GEN

VARIABLES phase,     \* "run" | "susp" | "fin"
          req,       \* what the application asked for: [mouse, paste, focus, shape, cur, title]
          sent,      \* cursor shape the terminal was last given (tScreen.cursorStyleSent)
          reg,       \* terminal registers
          last,      \* name of the last call
          hist
vars == <<phase, req, sent, reg, last, hist>>

\* mouse flag sets the model tries: none, buttons only, everything
MouseSets == {0, 1, 7}
MouseModes(f) == IF f = 0 THEN {} ELSE
                 (IF f % 2 = 1 THEN {1000} ELSE {}) \cup (IF (f \div 2) % 2 = 1 THEN {1002} ELSE {})
                 \cup (IF (f \div 4) % 2 = 1 THEN {1003} ELSE {}) \cup {1006}

\* registers before Init and after a faithful exit
Pristine == [alt |-> FALSE, keypad |-> FALSE, am |-> TRUE, mouse |-> {}, paste |-> FALSE, focus |-> FALSE,
             cvis |-> TRUE, shape |-> 0, sgr |-> FALSE, title |-> "", saved |-> FALSE]

NoReq == [mouse |-> 0, paste |-> FALSE, focus |-> FALSE, shape |-> 0, cur |-> FALSE, title |-> ""]

\* ---- transcription -------------------------------------------------------
EnableMouseReg(r, f) == IF HasMouse THEN [r EXCEPT !.mouse = MouseModes(f)] ELSE r
PasteReg(r, on) == IF HasMouse THEN [r EXCEPT !.paste = on] ELSE r
FocusReg(r, on) == IF HasMouse THEN [r EXCEPT !.focus = on] ELSE r

\* engage(): modes, alternate screen (title saved), keypad, cursor hidden, auto-margin off, clear, title
Engage(r, q) ==
    LET r1 == PasteReg(EnableMouseReg(r, q.mouse), q.paste)
        r2 == IF q.focus THEN FocusReg(r1, TRUE) ELSE r1
        r3 == IF AltScreen THEN [r2 EXCEPT !.alt = TRUE, !.saved = HasTitle] ELSE r2
        r4 == [r3 EXCEPT !.keypad = TRUE, !.cvis = IF HasCivis THEN FALSE ELSE @, !.am = IF HasRmam THEN FALSE ELSE @]
    IN IF q.title # "" /\ HasTitle THEN [r4 EXCEPT !.title = q.title] ELSE r4

\* disengage(): cursor shown, shape and rendition reset, keypad off, auto-margin on, title restored, primary screen, modes off
Disengage(r, q, snt) ==
    LET mustReset == IF ShapeFromSent THEN snt # 0 ELSE q.shape # 0
        r1 == [r EXCEPT !.cvis = TRUE, !.shape = IF HasShapes /\ mustReset THEN 0 ELSE @, !.sgr = FALSE,
                        !.keypad = FALSE, !.am = TRUE]
        r2 == IF AltScreen THEN [r1 EXCEPT !.alt = FALSE, !.title = IF r1.saved THEN "" ELSE @, !.saved = FALSE] ELSE r1
    IN FocusReg(PasteReg(EnableMouseReg(r2, 0), FALSE), FALSE)

\* draw(): the cursor is hidden while cells are painted (styled cells leave a rendition behind), then shown where
\* it was requested, with the requested shape
Draw(r, q) ==
    LET r1 == [r EXCEPT !.sgr = TRUE] IN
    IF q.cur THEN [r1 EXCEPT !.cvis = TRUE, !.shape = IF HasShapes THEN q.shape ELSE @]
    ELSE [r1 EXCEPT !.cvis = IF HasCivis THEN FALSE ELSE @]

Init == /\ phase = "run" /\ req = NoReq /\ sent = 0 /\ reg = Engage(Pristine, NoReq) /\ last = "Init" /\ hist = <<>>

Op(name, n) == [op |-> name, n |-> n]

\* a mode call: remembered; written to the terminal only while the screen runs (Resume applies what was remembered).
\* WriteWhenIdle = TRUE is the code as it was found: the sequence was written also on a suspended screen.
ModeCall(o, q1, r1) ==
    /\ req' = q1 /\ last' = o.op /\ UNCHANGED <<phase, sent>>
    /\ reg' = IF phase = "run" \/ (WriteWhenIdle /\ phase = "susp") THEN r1 ELSE reg

Do(o) ==
    CASE o.op = "EnableMouse"   -> ModeCall(o, [req EXCEPT !.mouse = o.n], EnableMouseReg(reg, o.n))
      [] o.op = "DisableMouse"  -> ModeCall(o, [req EXCEPT !.mouse = 0], EnableMouseReg(reg, 0))
      [] o.op = "EnablePaste"   -> ModeCall(o, [req EXCEPT !.paste = TRUE], PasteReg(reg, TRUE))
      [] o.op = "DisablePaste"  -> ModeCall(o, [req EXCEPT !.paste = FALSE], PasteReg(reg, FALSE))
      [] o.op = "EnableFocus"   -> ModeCall(o, [req EXCEPT !.focus = TRUE], FocusReg(reg, TRUE))
      [] o.op = "DisableFocus"  -> ModeCall(o, [req EXCEPT !.focus = FALSE], FocusReg(reg, FALSE))
      \* requests that reach the terminal only with the next draw
      [] o.op = "SetCursorStyle" -> ModeCall(o, [req EXCEPT !.shape = o.n], reg)
      [] o.op = "ShowCursor"    -> ModeCall(o, [req EXCEPT !.cur = TRUE], reg)
      [] o.op = "HideCursor"    -> ModeCall(o, [req EXCEPT !.cur = FALSE], reg)
      \* the title is remembered and, on a running screen, sent at once; engage sends it again
      [] o.op = "SetTitle" ->
           ModeCall(o, [req EXCEPT !.title = "t"], IF HasTitle THEN [reg EXCEPT !.title = "t"] ELSE reg)
      [] o.op = "Show" ->
           /\ phase # "fin" /\ last' = "Show" /\ UNCHANGED <<phase, req>>
           /\ IF phase = "run" THEN reg' = Draw(reg, req) /\ sent' = (IF req.cur /\ HasShapes THEN req.shape ELSE sent)
              ELSE UNCHANGED <<reg, sent>>
      [] o.op = "Suspend" ->
           /\ last' = "Suspend" /\ UNCHANGED req
           /\ IF phase = "run" THEN phase' = "susp" /\ reg' = Disengage(reg, req, sent) /\ sent' = 0
              ELSE UNCHANGED <<phase, reg, sent>>
      [] o.op = "Resume" ->
           /\ last' = "Resume" /\ UNCHANGED <<req, sent>>
           /\ IF phase = "susp" THEN phase' = "run" /\ reg' = Engage(reg, req) ELSE UNCHANGED <<phase, reg>>
      [] o.op = "Fini" ->
           /\ last' = "Fini" /\ UNCHANGED req /\ phase' = "fin"
           /\ IF phase = "run" THEN reg' = Disengage(reg, req, sent) /\ sent' = 0 ELSE UNCHANGED <<reg, sent>>

Ops == {Op("EnableMouse", f) : f \in MouseSets \ {0}} \cup {Op("DisableMouse", 0), Op("EnablePaste", 0), Op("DisablePaste", 0),
        Op("EnableFocus", 0), Op("DisableFocus", 0), Op("ShowCursor", 0), Op("HideCursor", 0), Op("Show", 0),
        Op("Suspend", 0), Op("Resume", 0), Op("Fini", 0), Op("SetTitle", 0)}
       \cup {Op("SetCursorStyle", n) : n \in {0, 2}}

\* operation records in the shape the harness replays
Out(o) == CASE o.op = "SetCursorStyle" -> [op |-> "SetCursorStyle", n |-> o.n, b |-> TRUE]
            [] o.op = "ShowCursor" -> [op |-> "ShowCursor", x |-> 1, y |-> 0]
            [] o.op = "EnableMouse" -> [op |-> "EnableMouse", n |-> o.n]
            [] o.op = "SetTitle" -> [op |-> "SetTitle", s |-> "t1"]
            [] OTHER -> [op |-> o.op]
\* a draw paints one styled cell first, so that a rendition is left on the terminal
Expand(h) == LET f[k \in 0..Len(h)] == IF k = 0 THEN <<>>
                                        ELSE IF h[k].op = "Show"
                                             THEN f[k-1] \o <<[op |-> "SetContent", x |-> (k % 3), y |-> 0, r |-> 97 + (k % 5),
                                                               st |-> <<<<1, 1 + (k % 6)>>, <<0, 0>>, 1, 0, <<0, 0>>, <<>>, <<>>>>],
                                                              [op |-> "Show"]>>
                                             ELSE Append(f[k-1], Out(h[k]))
             IN f[Len(h)]
EmitH == (GEN /\ hist' # hist /\ (hist'[Len(hist')].op \in {"Suspend", "Resume", "Fini"} \/ Len(hist') = MaxOps))
            => PrintT("@@B " \o ToJson(Expand(hist')))

Next == /\ Len(hist) < MaxOps
        /\ \E o \in Ops : Do(o) /\ hist' = Append(hist, o)
        /\ EmitH
Spec == Init /\ [][Next]_vars
View == <<phase, req, sent, reg, last, Len(hist)>>

\* ---- properties ----------------------------------------------------------
TypeOK == /\ phase \in {"run", "susp", "fin"} /\ req.mouse \in MouseSets /\ sent \in {0, 2} /\ reg.shape \in {0, 2}

\* the title the application set is taken back where the terminal's own was saved on entry (alternate screen in use
\* and a title stack to save it on); elsewhere there is nothing to restore it from
RestoredOnLeave == (last \in {"Suspend", "Fini"}) =>
                       /\ [reg EXCEPT !.title = ""] = Pristine
                       /\ (AltScreen /\ HasTitle => reg.title = "")

Applied == /\ reg.mouse = (IF HasMouse THEN MouseModes(req.mouse) ELSE {})
           /\ reg.paste = (HasMouse /\ req.paste)
           /\ reg.focus = (HasMouse /\ req.focus)
ModesOnResume ==
    (phase = "run" /\ last \in {"Resume", "EnableMouse", "DisableMouse", "EnablePaste", "DisablePaste", "EnableFocus", "DisableFocus"})
        => Applied
\* while it runs the screen owns the terminal: alternate screen (if wanted) and keypad mode stay on
OwnedWhileRunning == phase = "run" => reg.keypad /\ reg.alt = AltScreen
=============================================================================

SPECIFICATION Spec
CONSTANTS
  KC = 1
  EQ = 1
  NChunks = 3
  EventsPer = 2
  NPosts = 1
  NResizes = 1
  MaxCycles = 1
  FIXED = FALSE
INVARIANTS InOrderOnce PostsOK NoLoss NothingLostWithoutShutdown QueuesBounded WgOK LoopsExit
PROPERTIES ShutdownReturns
CHECK_DEADLOCK FALSE

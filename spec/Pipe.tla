-------------------------------- MODULE Pipe --------------------------------
(***************************************************************************)
(* The concurrent core of the terminfo screen (C05, C06): the input        *)
(* goroutine, the main loop, the application's poller and posters, and the *)
(* shutdown caller, one action per channel operation / critical section    *)
(* of tscreen.go (inputLoop, mainLoop, scanInput, resize, PostEvent,       *)
(* PollEvent, Fini -> finish -> disengage, Suspend, Resume -> engage).     *)
(*                                                                         *)
(* Channels: keychan (cap KC) carries chunks; eventQ (cap EQ) carries      *)
(* events; resizeQ (cap 1); stopQ is closed by disengage, quit by Fini.    *)
(* A chunk k (1..NChunks) decodes to EventsPer events <<k, 1>>..<<k, n>>.  *)
(*                                                                         *)
(* FIXED = FALSE is the code as found: the blocking sends of inputLoop     *)
(* (keychan <-), scanInput (eventQ <-, alternative quit only) and the      *)
(* error send have no stopQ alternative.  FIXED = TRUE adds it.            *)
(***************************************************************************)
EXTENDS Integers, Sequences, FiniteSets

CONSTANTS KC, EQ,            \* channel capacities (10 and 10 in the code)
          NChunks,           \* input chunks the environment may deliver
          EventsPer,         \* events decoded from one chunk
          NPosts,            \* PostEvent calls the application may make
          NResizes,          \* resize notifications the environment may raise
          MaxCycles,         \* Suspend/Resume cycles
          FIXED

VARIABLES ttyNext,     \* next chunk id the tty will hand to Read
          readErr,     \* the tty will fail the next Read
          keychan, eventQ, resizeQ,
          ipc, ichunk, \* input loop: "check" "read" "send" "errsend" "done"; chunk in hand
          mpc, mevs,   \* main loop: "select" "scan" "done"; events still to be queued
          stopQ, quit, \* TRUE = closed
          running, drained, cbreg, wg,
          cpc, ckind,  \* closer: "idle" "lock" "wait" "tail" "done"; "fini" / "suspend"
          cycles,
          polled,      \* sequence of events the application has received
          posted,      \* <<n, accepted>> per PostEvent call, in call order
          nposts, nresizes,
          lost         \* events discarded by a shutdown (bookkeeping for the safety properties)

vars == <<ttyNext, readErr, keychan, eventQ, resizeQ, ipc, ichunk, mpc, mevs, stopQ, quit, running, drained, cbreg,
          wg, cpc, ckind, cycles, polled, posted, nposts, nresizes, lost>>

Decode(k) == [i \in 1..EventsPer |-> <<"in", k, i>>]

Init == /\ ttyNext = 1 /\ readErr = FALSE
        /\ keychan = <<>> /\ eventQ = <<>> /\ resizeQ = 0
        /\ ipc = "check" /\ ichunk = 0 /\ mpc = "select" /\ mevs = <<>>
        /\ stopQ = FALSE /\ quit = FALSE /\ running = TRUE /\ drained = FALSE /\ cbreg = TRUE /\ wg = 2
        /\ cpc = "idle" /\ ckind = "none" /\ cycles = 0
        /\ polled = <<>> /\ posted = <<>> /\ nposts = 0 /\ nresizes = 0 /\ lost = {}

---------------------------------------------------------------------------
(* Input goroutine *)

InpCheck == /\ ipc = "check"
            /\ IF stopQ THEN ipc' = "done" /\ wg' = wg - 1 ELSE ipc' = "read" /\ wg' = wg
            /\ UNCHANGED <<ttyNext, readErr, keychan, eventQ, resizeQ, ichunk, mpc, mevs, stopQ, quit, running, drained,
                           cbreg, cpc, ckind, cycles, polled, posted, nposts, nresizes, lost>>

\* tty.Read returns: data, an error, or 0 bytes once the tty has been drained
InpRead == /\ ipc = "read"
           /\ \/ /\ readErr /\ ipc' = "errsend" /\ readErr' = FALSE /\ UNCHANGED <<ttyNext, ichunk>>
              \/ /\ ~readErr /\ ttyNext <= NChunks /\ ichunk' = ttyNext /\ ttyNext' = ttyNext + 1
                 /\ ipc' = "send" /\ UNCHANGED readErr
              \/ /\ ~readErr /\ drained /\ ipc' = "check" /\ UNCHANGED <<ttyNext, ichunk, readErr>>
           /\ UNCHANGED <<keychan, eventQ, resizeQ, mpc, mevs, stopQ, quit, running, drained, cbreg, wg, cpc, ckind,
                          cycles, polled, posted, nposts, nresizes, lost>>

InpSend == /\ ipc = "send"
           /\ \/ /\ Len(keychan) < KC /\ keychan' = Append(keychan, ichunk) /\ ipc' = "check" /\ UNCHANGED <<wg, lost>>
              \/ /\ FIXED /\ stopQ /\ ipc' = "done" /\ wg' = wg - 1          \* repaired: give up when told to stop
                 /\ lost' = lost \cup {Decode(ichunk)[i] : i \in 1..EventsPer} /\ UNCHANGED keychan
           /\ UNCHANGED <<ttyNext, readErr, eventQ, resizeQ, ichunk, mpc, mevs, stopQ, quit, running, drained, cbreg,
                          cpc, ckind, cycles, polled, posted, nposts, nresizes>>

InpErrSend == /\ ipc = "errsend"
              /\ \/ /\ ~running /\ UNCHANGED eventQ
                 \/ /\ running /\ Len(eventQ) < EQ /\ eventQ' = Append(eventQ, <<"err", 0, 0>>)
                 \/ /\ running /\ quit /\ UNCHANGED eventQ
                 \/ /\ running /\ FIXED /\ stopQ /\ UNCHANGED eventQ
              /\ ipc' = "done" /\ wg' = wg - 1
              /\ UNCHANGED <<ttyNext, readErr, keychan, resizeQ, ichunk, mpc, mevs, stopQ, quit, running, drained, cbreg,
                             cpc, ckind, cycles, polled, posted, nposts, nresizes, lost>>

---------------------------------------------------------------------------
(* Main loop *)

MainStop == /\ mpc = "select" /\ (stopQ \/ quit)
            /\ mpc' = "done" /\ wg' = wg - 1
            /\ UNCHANGED <<ttyNext, readErr, keychan, eventQ, resizeQ, ipc, ichunk, mevs, stopQ, quit, running, drained,
                           cbreg, cpc, ckind, cycles, polled, posted, nposts, nresizes, lost>>

\* resize branch: redraw, and a non-blocking post of the resize event (dropped when the queue is full)
MainResize == /\ mpc = "select" /\ resizeQ = 1
              /\ resizeQ' = 0
              /\ eventQ' = IF Len(eventQ) < EQ THEN Append(eventQ, <<"resize", 0, 0>>) ELSE eventQ
              /\ UNCHANGED <<ttyNext, readErr, keychan, ipc, ichunk, mpc, mevs, stopQ, quit, running, drained, cbreg, wg,
                             cpc, ckind, cycles, polled, posted, nposts, nresizes, lost>>

MainChunk == /\ mpc = "select" /\ keychan # <<>>
             /\ mevs' = Decode(Head(keychan)) /\ keychan' = Tail(keychan) /\ mpc' = "scan"
             /\ UNCHANGED <<ttyNext, readErr, eventQ, resizeQ, ipc, ichunk, stopQ, quit, running, drained, cbreg, wg,
                            cpc, ckind, cycles, polled, posted, nposts, nresizes, lost>>

MainScan == /\ mpc = "scan"
            /\ \/ /\ mevs = <<>> /\ mpc' = "select" /\ UNCHANGED <<eventQ, mevs, lost>>
               \/ /\ mevs # <<>> /\ Len(eventQ) < EQ
                  /\ eventQ' = Append(eventQ, Head(mevs)) /\ mevs' = Tail(mevs) /\ UNCHANGED <<mpc, lost>>
               \/ /\ mevs # <<>> /\ (quit \/ (FIXED /\ stopQ))          \* abandon the rest
                  /\ lost' = lost \cup {mevs[i] : i \in 1..Len(mevs)} /\ mevs' = <<>> /\ mpc' = "select" /\ UNCHANGED eventQ
            /\ UNCHANGED <<ttyNext, readErr, keychan, resizeQ, ipc, ichunk, stopQ, quit, running, drained, cbreg, wg,
                           cpc, ckind, cycles, polled, posted, nposts, nresizes>>

---------------------------------------------------------------------------
(* Application *)

Poll == /\ eventQ # <<>> /\ ~quit
        /\ polled' = Append(polled, Head(eventQ)) /\ eventQ' = Tail(eventQ)
        /\ UNCHANGED <<ttyNext, readErr, keychan, resizeQ, ipc, ichunk, mpc, mevs, stopQ, quit, running, drained, cbreg,
                       wg, cpc, ckind, cycles, posted, nposts, nresizes, lost>>

Post == /\ nposts < NPosts
        /\ nposts' = nposts + 1
        /\ IF Len(eventQ) < EQ
           THEN eventQ' = Append(eventQ, <<"post", nposts + 1, 0>>) /\ posted' = Append(posted, <<nposts + 1, TRUE>>)
           ELSE eventQ' = eventQ /\ posted' = Append(posted, <<nposts + 1, FALSE>>)
        /\ UNCHANGED <<ttyNext, readErr, keychan, resizeQ, ipc, ichunk, mpc, mevs, stopQ, quit, running, drained, cbreg,
                       wg, cpc, ckind, cycles, polled, nresizes, lost>>

\* the tty raises a resize notification (callback: non-blocking send on resizeQ)
Resize == /\ nresizes < NResizes /\ cbreg
          /\ nresizes' = nresizes + 1 /\ resizeQ' = 1
          /\ UNCHANGED <<ttyNext, readErr, keychan, eventQ, ipc, ichunk, mpc, mevs, stopQ, quit, running, drained, cbreg,
                         wg, cpc, ckind, cycles, polled, posted, nposts, lost>>

ReadFails == /\ ~readErr /\ ipc \in {"check", "read"} /\ readErr' = TRUE
             /\ UNCHANGED <<ttyNext, keychan, eventQ, resizeQ, ipc, ichunk, mpc, mevs, stopQ, quit, running, drained, cbreg,
                            wg, cpc, ckind, cycles, polled, posted, nposts, nresizes, lost>>

---------------------------------------------------------------------------
(* Shutdown caller: Fini / Suspend / Resume *)

CallShutdown(kind) ==
    /\ cpc = "idle" /\ ~quit
    /\ cpc' = "lock" /\ ckind' = kind
    /\ quit' = (kind = "fini")                 \* finish(): close(t.quit) first
    /\ UNCHANGED <<ttyNext, readErr, keychan, eventQ, resizeQ, ipc, ichunk, mpc, mevs, stopQ, running, drained, cbreg, wg,
                   cycles, polled, posted, nposts, nresizes, lost>>

\* disengage, under the lock: running := false; close(stopQ); Drain
CLock == /\ cpc = "lock"
         /\ IF ~running THEN cpc' = "done" /\ UNCHANGED <<running, stopQ, drained, cbreg>>
            ELSE /\ running' = FALSE /\ stopQ' = TRUE /\ drained' = TRUE
                 /\ cbreg' = FALSE                                   \* NotifyResize(nil) right after the unlock
                 /\ cpc' = "wait"
         /\ UNCHANGED <<ttyNext, readErr, keychan, eventQ, resizeQ, ipc, ichunk, mpc, mevs, quit, wg, ckind, cycles, polled,
                        posted, nposts, nresizes, lost>>

CWait == /\ cpc = "wait" /\ wg = 0                                   \* wg.Wait()
         /\ cpc' = "done"                                            \* tail: mode strings, tty.Stop (and Close for Fini)
         /\ UNCHANGED <<ttyNext, readErr, keychan, eventQ, resizeQ, ipc, ichunk, mpc, mevs, stopQ, quit, running, drained,
                        cbreg, wg, ckind, cycles, polled, posted, nposts, nresizes, lost>>

\* Resume after a completed Suspend: engage starts two fresh loops on a new stopQ
CResume == /\ cpc = "done" /\ ckind = "suspend" /\ cycles < MaxCycles
           /\ cycles' = cycles + 1
           /\ cpc' = "idle" /\ ckind' = "none"
           /\ running' = TRUE /\ stopQ' = FALSE /\ drained' = FALSE /\ cbreg' = TRUE
           /\ wg' = 2 /\ ipc' = "check" /\ mpc' = "select" /\ mevs' = <<>> /\ ichunk' = 0
           /\ UNCHANGED <<ttyNext, readErr, keychan, eventQ, resizeQ, quit, polled, posted, nposts, nresizes, lost>>

Library == InpCheck \/ InpRead \/ InpSend \/ InpErrSend \/ MainStop \/ MainResize \/ MainChunk \/ MainScan \/ CLock \/ CWait
Environment == Poll \/ Post \/ Resize \/ ReadFails \/ CallShutdown("fini") \/ CallShutdown("suspend") \/ CResume
Next == Library \/ Environment

\* fairness for the library's own steps only - never for the application's poller
Spec == Init /\ [][Next]_vars
        /\ WF_vars(InpCheck) /\ WF_vars(InpRead) /\ WF_vars(InpSend) /\ WF_vars(InpErrSend)
        /\ WF_vars(MainStop) /\ WF_vars(MainResize) /\ WF_vars(MainChunk) /\ WF_vars(MainScan)
        /\ WF_vars(CLock) /\ WF_vars(CWait)

---------------------------------------------------------------------------
(* Properties *)

InputEvents(s) == SelectSeq(s, LAMBDA e : e[1] = "in")
Before(a, b) == a[2] < b[2] \/ (a[2] = b[2] /\ a[3] < b[3])

\* C05: input events reach the application in input order, each at most once
InOrderOnce == LET p == InputEvents(polled) IN \A i, j \in 1..Len(p) : i < j => Before(p[i], p[j])

\* C05: every accepted post is delivered at most once and in posting order; a refused one never
PostsOK == LET p == SelectSeq(polled, LAMBDA e : e[1] = "post") IN
           /\ \A i, j \in 1..Len(p) : i < j => p[i][2] < p[j][2]
           /\ \A i \in 1..Len(p) : \E k \in 1..Len(posted) : posted[k] = <<p[i][2], TRUE>>

\* C05: nothing is lost except what a shutdown discards: at quiescence everything accepted has arrived
Quiescent == ttyNext > NChunks /\ keychan = <<>> /\ mevs = <<>> /\ eventQ = <<>> /\ ipc \in {"read", "check", "done"}
             /\ mpc \in {"select", "done"}
NoLoss == (Quiescent /\ ~quit) =>
             /\ \A k \in 1..(ttyNext - 1), i \in 1..EventsPer :
                   <<"in", k, i>> \in lost \/ \E n \in 1..Len(polled) : polled[n] = <<"in", k, i>>
             /\ \A k \in 1..Len(posted) : posted[k][2] => \E n \in 1..Len(polled) : polled[n] = <<"post", posted[k][1], 0>>
\* without a shutdown nothing at all is discarded: back-pressure, not loss
NothingLostWithoutShutdown == (cpc = "idle" /\ cycles = 0) => lost = {}

QueuesBounded == Len(keychan) <= KC /\ Len(eventQ) <= EQ
WgOK == wg = (IF ipc = "done" THEN 0 ELSE 1) + (IF mpc = "done" THEN 0 ELSE 1)

\* C06: Fini and Suspend return, whatever the application's poller does
ShutdownReturns == (cpc = "lock") ~> (cpc = "done")
\* C06: when they have returned both goroutines are gone
LoopsExit == (cpc = "done" /\ ckind \in {"fini", "suspend"}) => wg = 0
=============================================================================

SPECIFICATION Spec
CONSTANTS
  KC = 1
  EQ = 1
  NChunks = 2
  EventsPer = 2
  NPosts = 2
  NResizes = 1
  MaxCycles = 0
  FIXED = TRUE
INVARIANTS InOrderOnce PostsOK NoLoss NothingLostWithoutShutdown QueuesBounded WgOK LoopsExit
CHECK_DEADLOCK FALSE

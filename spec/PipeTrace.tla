------------------------------ MODULE PipeTrace ------------------------------
(***************************************************************************)
(* Trace validation for C05 and C06 (events written by `vh pipe` from a    *)
(* live terminfo screen on the fake tty).                                  *)
(*                                                                         *)
(* C05 runs: Inject(ids) / Post(p,n,ok) / Poll(kind,...) events carry one  *)
(* global sequence number taken under the log's lock.  The abstract        *)
(* monitor keeps per-producer next-expected counters: input ids must be    *)
(* polled in increasing order exactly once, accepted posts of a poster in  *)
(* posting order exactly once, refused posts never; at the Quiescent       *)
(* marker everything accepted must have arrived.                           *)
(*                                                                         *)
(* C06 runs: one Shutdown event per constructed start state, with the      *)
(* watchdog outcome of every step.                                         *)
(***************************************************************************)
EXTENDS Integers, Sequences, FiniteSets, TLC, Json

Trace == ndJsonDeserialize("trace.ndjson")
VARIABLES l, st, nviol
vars == <<l, st, nviol>>

Dev(tag, part, info) == [tag |-> tag, part |-> part, info |-> info]

\* st: nextIn = next input id expected; injected = ids handed to the tty so far; accepted / delivered posts per poster
InitSt == [nextIn |-> 0, injected |-> 0, acc |-> [p \in 0..7 |-> <<>>], del |-> [p \in 0..7 |-> 0], refused |-> {},
           focusIn |-> 0, focusOut |-> 0, ended |-> FALSE,
           injAt |-> <<>>,        \* injAt[id + 1]: when the bytes of input number id were handed to the terminal
           pasteAt |-> <<>>, pStart |-> 0, pEnd |-> 0]   \* bracketed pastes: injection times, markers delivered

Step(e) ==
    CASE e.ev = "Inject" ->
           <<[st EXCEPT !.injected = @ + Len(e.ids), !.focusIn = @ + (IF e.focus THEN 1 ELSE 0),
                        !.injAt = @ \o [i \in 1..Len(e.ids) |-> e.at],
                        !.pasteAt = IF e.paste THEN Append(@, e.at) ELSE @], {}>>
      [] e.ev = "Post" ->
           <<IF e.ok THEN [st EXCEPT !.acc[e.p] = Append(@, e.n)] ELSE [st EXCEPT !.refused = @ \cup {<<e.p, e.n>>}],
             IF e.ok \/ e.full THEN {} ELSE {Dev("C05.post_error", "neither_nil_nor_full", <<e.p, e.n>>)}>>
      [] e.ev = "Poll" ->
           LET timing == (IF e.whenpanic THEN {Dev("C05.when", "panic", e.kind)}
                          ELSE IF e.when > e.at THEN {Dev("C05.when", "after_delivery", <<e.kind, e.when, e.at>>)} ELSE {})
                         \* one event object per cause: the same object twice cannot carry both times
                         \cup (IF e.dup THEN {Dev("C05.order", "event_object_delivered_twice", e.kind)} ELSE {})
                         \cup (IF e.pending /\ e.waited_us > 200000 THEN {Dev("C05.pending", "poll_blocked_after_true", e.waited_us)} ELSE {})
           IN CASE e.kind = "in" ->
                     <<[st EXCEPT !.nextIn = IF e.id >= @ THEN e.id + 1 ELSE @],
                       timing \cup (IF e.id = st.nextIn THEN {}
                                    ELSE IF e.id < st.nextIn THEN {Dev("C05.order", "duplicate_or_reordered", <<e.id, st.nextIn>>)}
                                    ELSE {Dev("C05.lost", "input_skipped", <<st.nextIn, e.id>>)})
                              \cup (IF e.id < st.injected THEN {} ELSE {Dev("C05.order", "delivered_before_injected", e.id)})
                              \* When() is not earlier than the arrival of the bytes that caused the event
                              \cup (IF ~e.whenpanic /\ e.id >= 0 /\ e.id < Len(st.injAt) /\ e.when < st.injAt[e.id + 1]
                                    THEN {Dev("C05.when", "before_its_cause", <<e.id, e.when, st.injAt[e.id + 1]>>)} ELSE {})>>
                [] e.kind = "paste" ->
                     LET n == (IF e.start THEN st.pStart ELSE st.pEnd) + 1 IN
                     <<IF e.start THEN [st EXCEPT !.pStart = n] ELSE [st EXCEPT !.pEnd = n],
                       timing \cup (IF n > Len(st.pasteAt) THEN {Dev("C05.order", "paste_marker_never_typed", <<e.start, n>>)}
                                    ELSE IF ~e.whenpanic /\ e.when < st.pasteAt[n] THEN {Dev("C05.when", "before_its_cause", <<"paste", n, e.when, st.pasteAt[n]>>)}
                                    ELSE {})
                              \cup (IF e.start /\ st.pStart # st.pEnd THEN {Dev("C05.order", "paste_start_inside_paste", n)}
                                    ELSE IF ~e.start /\ st.pStart # st.pEnd + 1 THEN {Dev("C05.order", "paste_end_without_start", n)} ELSE {})>>
                [] e.kind = "post" ->
                     LET k == st.del[e.p] + 1 IN
                     <<[st EXCEPT !.del[e.p] = k],
                       timing \cup (IF <<e.p, e.n>> \in st.refused THEN {Dev("C05.post", "refused_but_delivered", <<e.p, e.n>>)}
                                    ELSE IF k <= Len(st.acc[e.p]) /\ st.acc[e.p][k] = e.n THEN {}
                                    ELSE {Dev("C05.post", "order_or_duplicate", <<e.p, e.n, k>>)})>>
                [] e.kind = "focus" -> <<[st EXCEPT !.focusOut = @ + 1], timing>>
                [] OTHER -> <<st, timing>>
      [] e.ev = "Quiescent" ->
           <<st, (IF st.nextIn = st.injected THEN {} ELSE {Dev("C05.lost", "input_never_delivered", <<st.nextIn, st.injected>>)})
                 \cup {Dev("C05.lost", "post_never_delivered", <<p, Len(st.acc[p]) - st.del[p]>>) : p \in {q \in 0..7 : st.del[q] < Len(st.acc[q])}}
                 \cup (IF st.focusOut = st.focusIn THEN {} ELSE {Dev("C05.lost", "focus_event", <<st.focusIn, st.focusOut>>)})
                 \cup (IF st.pStart = Len(st.pasteAt) /\ st.pEnd = Len(st.pasteAt) THEN {}
                       ELSE {Dev("C05.lost", "paste_marker", <<Len(st.pasteAt), st.pStart, st.pEnd>>)})>>
      [] e.ev = "FiniHang" -> <<st, {Dev("C06.hang", "Fini", "after delivery run")}>>
      \* HasPendingEvent answered true, yet PollEvent then blocked for seconds with nothing posted or typed
      [] e.ev = "PendingLie" -> <<st, {Dev("C05.pending", "true_but_poll_blocked", <<e.where, e.waited_ms>>)}>>
      [] e.ev = "ChanStillOpen" -> <<st, {Dev("C05.channel", "not_closed_on_fini", 0)}>>
      \* ChanQuit: events forwarded in order, then quit closed while nothing is pending: the channel is closed without
      \* waiting for another event, and an event posted afterwards is there for PollEvent
      [] e.ev = "ChanQuit" ->
           <<st, (IF e.forwarded = e.posted THEN {} ELSE {Dev("C05.channel", "forwarding_order", <<e.posted, e.forwarded>>)})
                 \cup (IF e.closed THEN {} ELSE {Dev("C05.channel", "not_closed_on_quit", e.after_quit)})
                 \cup (IF ~e.post_ok \/ e.polled THEN {} ELSE {Dev("C05.lost", "event_taken_after_quit", e.after_quit)})>>
      [] e.ev = "Shutdown" ->
           LET state == [kind |-> e.kind, eq |-> e.eq, chunks |-> e.chunks, readerr |-> e.readerr, resize |-> e.resize] IN
           <<st,
             (IF e.hang = "" THEN {}
              ELSE IF e.hang \in {"Fini", "Suspend", "Resume", "Fini2"} THEN {Dev("C06.hang", e.hang, [state |-> state, frames |-> e.frames])}
              ELSE {Dev("C06.call_after_fini", e.hang, [state |-> state, frames |-> e.frames])})
             \cup (IF ~e.finished \/ e.hang # "" THEN {}
                   ELSE (IF e.poll_nil THEN {} ELSE {Dev("C06.inert", "poll_not_nil", state)})
                        \cup (IF e.chan_closed THEN {} ELSE {Dev("C06.inert", "channel_not_closed", state)})
                        \cup {Dev("C06.inert", "panic", <<e.panics[i], state>>) : i \in 1..Len(e.panics)})
             \cup (IF "fwd" \notin DOMAIN e THEN {}
                   ELSE (IF e.fwd.closed /\ e.fwd.returned THEN {} ELSE {Dev("C06.inert", "forwarder_not_closed_at_fini", <<state, e.fwd>>)})
                        \cup (IF e.fwd.stale = 0 THEN {} ELSE {Dev("C06.inert", "events_forwarded_after_fini", <<state, e.fwd>>)}))
             \cup (IF "loops_left" \in DOMAIN e /\ e.loops_left # 0 THEN {Dev("C06.goroutines", "loops_still_running", state)} ELSE {})
             \cup (IF "resumed_input" \in DOMAIN e /\ ~e.resumed_input THEN {Dev("C06.resume", "input_not_delivered", state)} ELSE {})
             \cup (IF "resumed_resize" \in DOMAIN e /\ ~e.resumed_resize THEN {Dev("C06.resume", "resize_not_delivered", state)} ELSE {})>>
      [] OTHER -> <<st, {}>>

Report(e, devs) == \A d \in devs : PrintT("@@V " \o ToJson(d @@ [l |-> l, ev |-> e.ev]))
Init == l = 1 /\ st = InitSt /\ nviol = 0
Next == /\ l <= Len(Trace) /\ l' = l + 1
        /\ LET e == Trace[l] IN
           IF e.ev \in {"Reset", "Start"} THEN st' = InitSt /\ nviol' = nviol
           ELSE LET r == Step(e) IN st' = r[1] /\ Report(e, r[2]) /\ nviol' = nviol + Cardinality(r[2])
Spec == Init /\ [][Next]_vars
Accepted == TLCGet("stats").diameter - 1 = Len(Trace)
Done == l > Len(Trace) => PrintT("@@DONE " \o ToString(nviol) \o " " \o ToString(Len(Trace)))
=============================================================================

SPECIFICATION Spec
CONSTANTS
  Procs = {a, b, loop}
  Protect = TRUE
INVARIANTS Exclusive
CHECK_DEADLOCK FALSE

------------------------------ MODULE ScreenLock ------------------------------
(***************************************************************************)
(* C10: the lock discipline of the terminfo screen.                        *)
(*                                                                         *)
(* Catalogue: every Screen method with the groups of screen state its body *)
(* touches, and whether that body runs inside the screen's mutex.  The     *)
(* design model lets goroutines (application callers and the library's own *)
(* loops) run methods concurrently and checks Exclusive: two bodies that   *)
(* touch a common group are never open at the same time.  With every entry *)
(* of Unlocked protected (Protect = TRUE) the invariant holds; with        *)
(* Protect = FALSE TLC exhibits the conflicting pair.                      *)
(*                                                                         *)
(* The same catalogue drives the trace spec (ScreenLockTrace): a call of a *)
(* method whose body touches state must contain a lock section of the      *)
(* calling goroutine, and every Tty.Write must happen inside one.          *)
(***************************************************************************)
EXTENDS Integers, FiniteSets, Sequences

CONSTANTS Procs, Protect

\* groups of mutable screen state
Touches(m) ==
    CASE m \in {"SetContent", "GetContent", "Fill", "Clear", "SetCell", "LockRegion"} -> {"cells"}
      [] m \in {"Show", "Sync", "MainLoopResize"} -> {"cells", "size", "out", "cursor", "style", "colors", "fallback"}
      [] m = "SetStyle" -> {"style"}
      [] m \in {"ShowCursor", "HideCursor", "SetCursorStyle"} -> {"cursor"}
      [] m = "Size" -> {"size"}
      [] m \in {"EnableMouse", "DisableMouse", "EnablePaste", "DisablePaste", "EnableFocus", "DisableFocus"} -> {"modes", "out"}
      [] m = "SetTitle" -> {"title", "out"}
      [] m \in {"SetClipboard", "GetClipboard", "Beep"} -> {"out"}
      [] m = "SetSize" -> {"out", "cells", "size"}
      [] m = "CanDisplay" -> {"fallback"}
      [] m \in {"RegisterRuneFallback", "UnregisterRuneFallback"} -> {"fallback"}
      [] m = "DecodeInput" -> {"keystate", "size"}
      [] m \in {"Suspend", "Resume", "Fini"} -> {"running", "out", "cells", "modes", "cursor"}
      [] OTHER -> {}           \* HasMouse HasKey Colors CharacterSet Tty PostEvent PollEvent HasPendingEvent ...

Methods == {"SetContent", "GetContent", "Fill", "Show", "Sync", "MainLoopResize", "SetStyle", "ShowCursor", "SetCursorStyle",
            "Size", "EnableMouse", "EnablePaste", "SetTitle", "SetClipboard", "Beep", "SetSize", "CanDisplay",
            "RegisterRuneFallback", "DecodeInput", "Colors", "HasKey", "PostEvent"}

\* bodies that ran outside the mutex in the code as found
Unlocked == {"Beep", "SetSize", "CanDisplay"}
Locks(m) == Touches(m) # {} /\ (Protect \/ m \notin Unlocked)

VARIABLES pc, meth, holder
vars == <<pc, meth, holder>>

Init == pc = [p \in Procs |-> "idle"] /\ meth = [p \in Procs |-> "none"] /\ holder = "nobody"

Call(p) == /\ pc[p] = "idle"
           /\ \E m \in Methods : meth' = [meth EXCEPT ![p] = m]
                                 /\ pc' = [pc EXCEPT ![p] = IF Locks(m) THEN "acquire" ELSE "body"]
           /\ UNCHANGED holder
Acquire(p) == pc[p] = "acquire" /\ holder = "nobody" /\ holder' = p /\ pc' = [pc EXCEPT ![p] = "body"] /\ UNCHANGED meth
Finish(p) == /\ pc[p] = "body"
             /\ pc' = [pc EXCEPT ![p] = "idle"] /\ meth' = [meth EXCEPT ![p] = "none"]
             /\ holder' = IF holder = p THEN "nobody" ELSE holder
Next == \E p \in Procs : Call(p) \/ Acquire(p) \/ Finish(p)
Spec == Init /\ [][Next]_vars

Exclusive == \A p, q \in Procs : (p # q /\ pc[p] = "body" /\ pc[q] = "body") => Touches(meth[p]) \cap Touches(meth[q]) = {}
=============================================================================

---------------------------- MODULE ScreenLockTrace ----------------------------
(***************************************************************************)
(* Trace validation for C10.  `vh race --mode lock` calls every Screen     *)
(* method on a live terminfo screen and logs, in one global order:         *)
(*   Call / Return of each method with the calling goroutine,              *)
(*   lock / unlock from the verif hook inside the screen's mutex,          *)
(*   every Tty.Write with the writing goroutine and its bytes,             *)
(*   Race events: reports of the Go race detector parsed by the runner     *)
(*   from a -race build running method pairs concurrently.                 *)
(* Checks: a method whose body touches screen state (ScreenLock!Touches)   *)
(* contains a lock section of its goroutine; every Write happens inside a  *)
(* lock section of the writer and is a whole number of escape sequences    *)
(* (the ECMA-48 lexer of Term.tla is in ground state at its end); no Race. *)
(***************************************************************************)
EXTENDS Integers, Sequences, FiniteSets, TLC, Json

Trace == ndJsonDeserialize("trace.ndjson")
SL == INSTANCE ScreenLock WITH Procs <- {}, Protect <- TRUE, pc <- 0, meth <- 0, holder <- 0
T == INSTANCE Term

VARIABLES l, open, calls, lex, nviol
vars == <<l, open, calls, lex, nviol>>

Dev(tag, part, info) == [tag |-> tag, part |-> part, info |-> info]

\* open: set of goroutines currently inside a lock section
\* calls: function goroutine -> [m, locked] for the call in progress (as a set of records)
Step(e) ==
    CASE e.ev = "lock" -> <<open \cup {e.g}, {[c EXCEPT !.locked = TRUE] : c \in {d \in calls : d.g = e.g}} \cup {d \in calls : d.g # e.g}, lex, {}>>
      [] e.ev = "unlock" -> <<open \ {e.g}, calls, lex, {}>>
      [] e.ev = "Call" -> <<open, {d \in calls : d.g # e.g} \cup {[g |-> e.g, m |-> e.m, locked |-> e.g \in open]}, lex, {}>>
      [] e.ev = "Return" ->
           LET mine == {d \in calls : d.g = e.g /\ d.m = e.m} IN
           <<open, calls \ mine, lex,
             IF SL!Touches(e.m) # {} /\ \E d \in mine : ~d.locked
             THEN {Dev("C10.unlocked_method", e.m, SL!Touches(e.m))} ELSE {}>>
      [] e.ev = "Write" ->
           LET t1 == T!Feed([lex EXCEPT !.bad = {}], e.data) IN
           <<open, calls, [t1 EXCEPT !.g = lex.g],
             (IF e.g \in open THEN {} ELSE {Dev("C10.write_outside_lock", e.during, e.g)})
             \cup (IF t1.lx = "gnd" /\ t1.bad = {} THEN {} ELSE {Dev("C10.block_not_contiguous", e.during, <<t1.lx, t1.bad>>)})>>
      [] e.ev = "Race" -> <<open, calls, lex, {Dev("C10.race", e.pair, e.frames)}>>
      [] e.ev = "Fatal" -> <<open, calls, lex, {Dev("C10.runtime_fault", e.pair, e.msg)}>>
      [] OTHER -> <<open, calls, lex, {}>>

Report(e, devs) == \A d \in devs : PrintT("@@V " \o ToJson(d @@ [l |-> l, ev |-> e.ev]))
NewLex == T!NewTerm(4, 2, "utf8", <<>>, {}, {}, T!NoQuirks)
Init == l = 1 /\ open = {} /\ calls = {} /\ lex = NewLex /\ nviol = 0
Next == /\ l <= Len(Trace) /\ l' = l + 1
        /\ LET e == Trace[l] IN
           IF e.ev = "Reset" THEN open' = {} /\ calls' = {} /\ lex' = NewLex /\ nviol' = nviol
           ELSE LET r == Step(e) IN open' = r[1] /\ calls' = r[2] /\ lex' = r[3] /\ Report(e, r[4]) /\ nviol' = nviol + Cardinality(r[4])
Spec == Init /\ [][Next]_vars
Accepted == TLCGet("stats").diameter - 1 = Len(Trace)
Done == l > Len(Trace) => PrintT("@@DONE " \o ToString(nviol) \o " " \o ToString(Len(Trace)))
=============================================================================

SPECIFICATION Spec
CONSTANTS
  W = 3
  H = 1
  MaxOps = 5
  InvalidateOnSetSize = TRUE
  GEN = FALSE
VIEW View
INVARIANTS FrontOK KeepsOverlap CursorOK ResizeOnce KeysInOrder
CHECK_DEADLOCK FALSE

------------------------------ MODULE SimModel ------------------------------
(***************************************************************************)
(* Design model of the SimulationScreen (C18): simulation.go's Show /      *)
(* Sync / draw / drawCell / resize / SetSize / ShowCursor / HideCursor /   *)
(* InjectKey / PollEvent are transcribed over                              *)
(*   - the transcription of cell.go (Impl-operators of module CellBuf) as  *)
(*     the back buffer with its dirty tracking,                            *)
(*   - the physical cells (front) the test reads with GetContents,         *)
(*   - the cursor fields read with GetCursor, and                          *)
(*   - the event queue.                                                    *)
(* TLC explores every sequence (up to MaxOps) of SetContent / Show / Sync  *)
(* / SetSize / ShowCursor / HideCursor / InjectKey / Drain on a small      *)
(* screen with narrow, wide and zero-width runes and checks                *)
(*   FrontOK     after Show / Sync every visible cell of the physical      *)
(*               screen holds the rune last set (a wide rune in the last   *)
(*               column shown blank, the column a wide rune covers left    *)
(*               alone);                                                   *)
(*   KeepsOverlap SetSize keeps the overlapping region of the physical     *)
(*               cells;                                                    *)
(*   CursorOK    after a draw the cursor query gives the position asked    *)
(*               for since the last SetSize, visible exactly when it is on *)
(*               the screen; a visible cursor is always on the screen;     *)
(*   ResizeOnce  a size change produces exactly one resize event, with the *)
(*               new size, at the next draw;                               *)
(*   KeysInOrder injected keys come out of the queue in order, once.       *)
(* InvalidateOnSetSize = FALSE is the model of the code as found: refuted  *)
(* (Show; SetSize smaller; SetSize back; Show leaves lost cells empty).     *)
(* With GEN the history of every transition into Show / Sync / Drain is    *)
(* printed for replay on the real SimulationScreen (vh sim --behaviours),  *)
(* whose answers SimTrace validates.                                       *)
(***************************************************************************)
EXTENDS Integers, Sequences, FiniteSets, TLC, Json

CONSTANTS W, H, MaxOps, InvalidateOnSetSize, GEN

CB == INSTANCE CellBuf

VARIABLES back,      \* CellBuf implementation state
          pw, ph,    \* physical size (SetSize)
          front,     \* physical cells, row-major: code point shown (0: never painted)
          cur, cvis, \* cursor fields
          asked,     \* the application has placed the cursor since the last SetSize
          q,         \* event queue
          got,       \* events taken by the last Drain
          inj,       \* keys injected so far (numbered)
          due,       \* sizes for which a resize event is owed, oldest first
          shown,     \* the last step was a draw
          kept,      \* the last SetSize kept the overlap
          hist
vars == <<back, pw, ph, front, cur, cvis, asked, q, got, inj, due, shown, kept, hist>>

DefaultStyle == CB!DefaultStyle
WIDE == 19990
Runes == { <<97, 1>>, <<WIDE, 2>>, <<8203, 0>> }
Sizes == { <<W, H>>, <<W - 1, H>>, <<W, H + 1>> }

InPhys(x, y) == x >= 0 /\ y >= 0 /\ x < pw /\ y < ph

Init == /\ back = CB!ImplResize(CB!IEmptyBuf, W, H) /\ pw = W /\ ph = H
        /\ front = [i \in 1..(W * H) |-> 0]
        /\ cur = <<-1, -1>> /\ cvis = FALSE /\ asked = FALSE
        /\ q = <<>> /\ got = <<>> /\ inj = 0 /\ due = <<>> /\ shown = FALSE /\ kept = TRUE /\ hist = <<>>

---------------------------------------------------------------------------
(* the draw algorithm: S = [b, f] *)

DrawCell(S, x, y) ==
    LET g == CB!ImplGet(S.b, x, y)
        width == g[4]
    IN IF ~CB!ImplDirty(S.b, x, y) THEN <<S, width>>
       ELSE IF ~InPhys(x, y) THEN <<S, width>>
       ELSE LET i == y * pw + x + 1
                cp == IF x > pw - width THEN 32 ELSE g[1]
            IN <<[b |-> CB!ImplSetDirty(S.b, x, y, FALSE), f |-> [S.f EXCEPT ![i] = cp]], width>>

RECURSIVE DrawFrom(_, _, _)
DrawFrom(S, x, y) ==
    IF y >= S.b.h THEN S
    ELSE IF x >= S.b.w THEN DrawFrom(S, 0, y + 1)
    ELSE LET r == DrawCell(S, x, y) IN DrawFrom(r[1], x + (IF r[2] > 1 THEN r[2] ELSE 1), y)

\* resize(): the back buffer follows the physical size, and a resize event is queued
Resized == back.w # pw \/ back.h # ph
Draw(full) ==
    LET b0 == IF Resized THEN CB!ImplResize(back, pw, ph) ELSE back
        b1 == IF full THEN CB!ImplInvalidate(b0) ELSE b0
        f0 == IF full THEN [i \in 1..Len(front) |-> 32] ELSE front      \* clearScreen
    IN DrawFrom([b |-> b1, f |-> f0], 0, 0)

\* expected physical content of buffer b: <<kind, cp>> per cell
RECURSIVE VisRow(_, _, _)
VisRow(b, y, x) ==
    IF x >= b.w THEN <<>>
    ELSE LET g == CB!ImplGet(b, x, y) IN
         IF g[4] = 2 /\ x + 1 < b.w THEN <<<<"wide", g[1]>>, <<"cont", 0>>>> \o VisRow(b, y, x + 2)
         ELSE IF g[4] = 2 THEN <<<<"cell", 32>>>> \o VisRow(b, y, x + 1)
         ELSE <<<<"cell", g[1]>>>> \o VisRow(b, y, x + 1)
RECURSIVE VisFrom(_, _)
VisFrom(b, y) == IF y >= b.h THEN <<>> ELSE VisRow(b, y, 0) \o VisFrom(b, y + 1)

---------------------------------------------------------------------------
Ops == [op : {"SetContent"}, x : {0, W - 1}, y : {0}, r : Runes]
       \cup [op : {"Show", "Sync", "HideCursor", "InjectKey", "Drain"}]
       \cup [op : {"ShowCursor"}, x : {0, W - 1, W}, y : {0, H}]
       \cup [op : {"SetSize"}, w : {s[1] : s \in Sizes}, h : {s[2] : s \in Sizes}]

Do(o) ==
    CASE o.op = "SetContent" ->
           /\ back' = CB!ImplSetContent(back, o.x, o.y, o.r[1], o.r[2], <<>>, DefaultStyle)
           /\ shown' = FALSE /\ UNCHANGED <<pw, ph, front, cur, cvis, asked, q, got, inj, due, kept>>
      [] o.op \in {"Show", "Sync"} ->
           LET S == Draw(o.op = "Sync") IN
           /\ back' = S.b /\ front' = S.f
           /\ q' = IF Resized THEN Append(q, <<"resize", pw, ph>>) ELSE q
           /\ cvis' = InPhys(cur[1], cur[2])
           /\ shown' = TRUE /\ UNCHANGED <<pw, ph, cur, asked, got, inj, due, kept>>
      [] o.op = "ShowCursor" ->
           /\ cur' = <<o.x, o.y>> /\ cvis' = InPhys(o.x, o.y) /\ asked' = TRUE
           /\ shown' = FALSE /\ UNCHANGED <<back, pw, ph, front, q, got, inj, due, kept>>
      [] o.op = "HideCursor" ->
           /\ cur' = <<-1, -1>> /\ cvis' = FALSE /\ asked' = TRUE
           /\ shown' = FALSE /\ UNCHANGED <<back, pw, ph, front, q, got, inj, due, kept>>
      [] o.op = "SetSize" ->
           /\ o.w > 0 /\ o.h > 0 /\ <<o.w, o.h>> \in Sizes
           /\ pw' = o.w /\ ph' = o.h
           /\ front' = [i \in 1..(o.w * o.h) |->
                          LET x == (i - 1) % o.w  y == (i - 1) \div o.w IN
                          IF x < pw /\ y < ph THEN front[y * pw + x + 1] ELSE 0]
           /\ kept' = TRUE
           /\ cur' = <<-1, -1>> /\ asked' = FALSE           \* the simulator forgets the cursor (cvis is left as it is)
           /\ due' = IF <<o.w, o.h>> # <<back.w, back.h>> THEN <<<<o.w, o.h>>>> ELSE <<>>
           \* cells the physical screen lost are painted again by the next draw, even if the size is back to the
           \* buffer's by then (InvalidateOnSetSize = FALSE: the code as found, where they stayed empty)
           /\ back' = IF InvalidateOnSetSize THEN CB!ImplInvalidate(back) ELSE back
           /\ shown' = FALSE /\ UNCHANGED <<cvis, q, got, inj>>
      [] o.op = "InjectKey" ->
           /\ inj' = inj + 1 /\ q' = Append(q, <<"key", inj + 1>>)
           /\ shown' = FALSE /\ UNCHANGED <<back, pw, ph, front, cur, cvis, asked, got, due, kept>>
      [] o.op = "Drain" ->
           /\ got' = q /\ q' = <<>>
           /\ due' = IF \E i \in 1..Len(q) : q[i][1] = "resize" THEN <<>> ELSE due
           /\ shown' = FALSE /\ UNCHANGED <<back, pw, ph, front, cur, cvis, asked, inj, kept>>

\* operation records in the shape the harness replays
Out(o) == CASE o.op = "SetContent" -> [op |-> "SetContent", x |-> o.x, y |-> o.y, r |-> o.r[1]]
            [] o.op = "InjectKey" -> [op |-> "InjectKey", r |-> 113]
            [] OTHER -> o
EmitH == (GEN /\ hist' # hist /\ hist'[Len(hist')].op \in {"Show", "Sync", "Drain"})
            => PrintT("@@B " \o ToJson([k \in 1..Len(hist') |-> Out(hist'[k])]))

Next == /\ Len(hist) < MaxOps
        /\ \E o \in Ops : Do(o) /\ hist' = Append(hist, o)
        /\ EmitH
Spec == Init /\ [][Next]_vars
View == <<back, pw, ph, front, cur, cvis, asked, q, got, inj, due, shown, kept, Len(hist)>>

---------------------------------------------------------------------------
FrontOK ==
    shown => /\ back.w = pw /\ back.h = ph /\ Len(front) = pw * ph
             /\ LET vis == VisFrom(back, 0) IN
                \A i \in 1..Len(vis) : vis[i][1] = "cont" \/ front[i] = vis[i][2]
KeepsOverlap == kept
CursorOK ==
    /\ (shown /\ asked) => (cvis = InPhys(cur[1], cur[2]))
    /\ shown => (cvis => InPhys(cur[1], cur[2]))
\* a resize event in the queue or just drained carries the physical size of the moment it was produced; one per change
ResizeOnce ==
    /\ LET rs == SelectSeq(q, LAMBDA e : e[1] = "resize") IN        \* one event per change: never the same size twice in a row
       \A i \in 1..(Len(rs) - 1) : rs[i] # rs[i + 1]
    /\ shown => (due = <<>> \/ \E i \in 1..Len(q) : q[i] = <<"resize", due[1][1], due[1][2]>>)
KeysInOrder ==
    LET keys(s) == SelectSeq(s, LAMBDA e : e[1] = "key") IN
    /\ \A i \in 1..Len(keys(got)) : i = 1 \/ keys(got)[i][2] = keys(got)[i - 1][2] + 1
    /\ \A i \in 1..Len(keys(q)) : i = 1 \/ keys(q)[i][2] = keys(q)[i - 1][2] + 1
    /\ (keys(q) # <<>> => keys(q)[Len(keys(q))][2] = inj)
=============================================================================

------------------------------ MODULE SimTrace ------------------------------
(***************************************************************************)
(* C18: the SimulationScreen is a faithful test double.  The log written   *)
(* by `vh sim` holds every drawing / injection call on a real              *)
(* SimulationScreen and, after each Show / Sync / SetSize, the physical    *)
(* cells it reports (GetContents), the cursor (GetCursor) and the events   *)
(* drained from PollEvent.  The logical screen is rebuilt with the         *)
(* requirement operators of CellBuf; FrontOK compares every visible cell.  *)
(***************************************************************************)
EXTENDS Integers, Sequences, FiniteSets, TLC, Json

Trace == ndJsonDeserialize("trace.ndjson")
CB == INSTANCE CellBuf

VARIABLES l, cfg, cb, s, nviol
vars == <<l, cfg, cb, s, nviol>>

DefaultStyle == CB!DefaultStyle
Dev(tag, part, info) == [tag |-> tag, part |-> part, info |-> info]

\* s: default styles seen, fallback map (sequence of <<rune, bytes>>), front as last reported,
\* pending resize, cursor request, expected event queue
InitS == [defs |-> {DefaultStyle}, def |-> DefaultStyle, fb |-> <<>>, front |-> <<>>, fw |-> 0, fh |-> 0,
          pending |-> <<>>, cur |-> <<-1, -1>>, curknown |-> TRUE, expect |-> <<>>, pw |-> 80, ph |-> 25]

RKey(r) == "r" \o ToString(r)
Enc(c, r) == IF RKey(r) \in DOMAIN c.enc THEN c.enc[RKey(r)] ELSE <<>>      \* <<>>: not encodable
FbOf(fb, r) == LET hits == {i \in 1..Len(fb) : fb[i][1] = r} IN
               IF hits = {} THEN <<>> ELSE fb[CHOOSE i \in hits : \A j \in hits : i >= j][2]
HasFb(fb, r) == \E i \in 1..Len(fb) : fb[i][1] = r

RECURSIVE EmitBytes(_, _, _, _)
EmitBytes(c, fb, runes, i) ==
    IF i > Len(runes) THEN <<>>
    ELSE LET e == Enc(c, runes[i]) IN
         (IF e # <<>> THEN e
          ELSE IF i = 1 THEN (IF HasFb(fb, runes[1]) THEN FbOf(fb, runes[1]) ELSE <<63>>)
          ELSE <<>>)                                   \* unencodable combining marks are dropped
         \o EmitBytes(c, fb, runes, i + 1)

\* visible rendering, row-major (as in TScreenTrace)
RECURSIVE VisRow(_, _, _)
VisRow(b, y, x) ==
    IF x >= b.w THEN <<>>
    ELSE LET c == b.cells[CB!Idx(b, x, y)] IN
         IF c.wc = 2 /\ x + 1 < b.w
         THEN <<[k |-> "wide", runes |-> <<c.cp>> \o c.comb, st |-> c.st], [k |-> "cont", runes |-> <<>>, st |-> c.st]>> \o VisRow(b, y, x + 2)
         ELSE IF c.wc = 2 THEN <<[k |-> "lastcol", runes |-> <<32>>, st |-> c.st]>> \o VisRow(b, y, x + 1)
         ELSE IF c.wc = 0 \/ c.cp < 32 THEN <<[k |-> "cell", runes |-> <<32>> \o c.comb, st |-> c.st]>> \o VisRow(b, y, x + 1)
         ELSE <<[k |-> "cell", runes |-> <<c.cp>> \o c.comb, st |-> c.st]>> \o VisRow(b, y, x + 1)
RECURSIVE VisFrom(_, _)
VisFrom(b, y) == IF y >= b.h THEN <<>> ELSE VisRow(b, y, 0) \o VisFrom(b, y + 1)

\* cell = <<runes, bytes, style>>
FrontDevs(c, b, st, e) ==
    IF e.pw # b.w \/ e.ph # b.h \/ Len(e.cells) # b.w * b.h THEN {Dev("C18.front", "size", <<e.pw, e.ph, b.w, b.h>>)}
    ELSE LET vis == VisFrom(b, 0) IN
         UNION { LET v == vis[i]  got == e.cells[i] IN
                 IF v.k = "cont" THEN {}
                 ELSE (IF got[1] = v.runes THEN {} ELSE {Dev("C18.front", "runes", <<i, got[1], v.runes>>)})
                      \cup (IF got[3] \in {(IF v.st = DefaultStyle THEN d ELSE v.st) : d \in st.defs} THEN {}
                            ELSE {Dev("C18.front", "style", <<i, got[3]>>)})
                      \cup (IF got[2] = (IF v.k = "lastcol" THEN <<32>> ELSE EmitBytes(c, st.fb, v.runes, 1)) THEN {}
                            ELSE {Dev("C18.front", "bytes", <<i, got[2], v.runes>>)})
               : i \in 1..Len(vis) }

\* events are tuples as in InputTrace; resize = <<"resize", w, h>>
RECURSIVE RemoveFirst(_, _)
RemoveFirst(q, x) == IF q = <<>> THEN <<>> ELSE IF q[1] = x THEN Tail(q) ELSE <<q[1]>> \o RemoveFirst(Tail(q), x)

DrainDevs(st, evs) ==
    LET nonres == SelectSeq(evs, LAMBDA x : x[1] # "resize") IN
    (IF nonres = st.expect THEN {} ELSE {Dev("C18.inject", "events", <<nonres, st.expect>>)})

Handle(e) ==
    CASE e.ev = "SetContent" -> <<CB!ReqSetContent(cb, e.x, e.y, e.cp, e.wc, e.comb, e.st), s, {}>>
      [] e.ev = "Fill" -> <<CB!ReqFill(cb, e.cp, e.wc, e.st), s, {}>>
      [] e.ev = "SetStyle" -> <<cb, [s EXCEPT !.def = e.st, !.defs = @ \cup {e.st}], {}>>
      [] e.ev = "Fallback" -> <<cb, [s EXCEPT !.fb = IF e.on THEN Append(@, <<e.r, e.subst>>)
                                                  ELSE SelectSeq(@, LAMBDA p : p[1] # e.r)], {}>>
      [] e.ev \in {"Show", "Sync"} ->
           LET b1 == IF cb.w # s.pw \/ cb.h # s.ph THEN CB!ReqResize(cb, s.pw, s.ph) ELSE cb
               s1 == [s EXCEPT !.front = e.cells, !.fw = e.pw, !.fh = e.ph]
           IN <<b1, s1,
                FrontDevs(cfg, b1, s, e)
                \cup (IF ~s.curknown THEN      \* after SetSize the position is the simulator's business, but a visible cursor is on the screen
                           (IF e.cursor[3] /\ ~(e.cursor[1] >= 0 /\ e.cursor[2] >= 0 /\ e.cursor[1] < b1.w /\ e.cursor[2] < b1.h)
                            THEN {Dev("C18.cursor", "visible_outside_the_screen", e.cursor)} ELSE {})
                      ELSE IF s.cur = <<-2, -2>> THEN       \* hidden: only "not visible" is required
                           (IF e.cursor[3] THEN {Dev("C18.cursor", "visible_after_hide", e.cursor)} ELSE {})
                      ELSE LET inr == s.cur[1] >= 0 /\ s.cur[2] >= 0 /\ s.cur[1] < b1.w /\ s.cur[2] < b1.h IN
                           IF e.cursor = <<s.cur[1], s.cur[2], inr>> THEN {} ELSE {Dev("C18.cursor", "after_show", <<e.cursor, s.cur>>)})>>
      [] e.ev = "HideCursor" ->
           <<cb, [s EXCEPT !.cur = <<-2, -2>>, !.curknown = TRUE],
             IF e.cursor[3] THEN {Dev("C18.cursor", "visible_after_hide", e.cursor)} ELSE {}>>
      [] e.ev = "ShowCursor" ->
           LET inr == e.x >= 0 /\ e.y >= 0 /\ e.x < s.pw /\ e.y < s.ph IN
           <<cb, [s EXCEPT !.cur = <<e.x, e.y>>, !.curknown = TRUE],
             IF e.cursor = <<e.x, e.y, inr>> THEN {} ELSE {Dev("C18.cursor", "after_showcursor", <<e.cursor, e.x, e.y>>)}>>
      [] e.ev = "SetSize" ->
           \* the overlapping region of the physical cells is preserved
           LET keep == \A x \in 0..(e.w - 1), y \in 0..(e.h - 1) :
                          (x < s.fw /\ y < s.fh) => e.cells[y * e.w + x + 1] = s.front[y * s.fw + x + 1]
               \* a resize event is owed when the size differs from the one the application was last told, i.e. the size
               \* of the cell buffer (two changes that cancel before the next draw leave nothing to report)
               changed == e.w # cb.w \/ e.h # cb.h
           IN <<cb, [s EXCEPT !.pw = e.w, !.ph = e.h, !.front = e.cells, !.fw = e.w, !.fh = e.h, !.curknown = FALSE,
                              !.pending = IF changed THEN <<e.w, e.h>> ELSE <<>>],
                (IF keep /\ e.pw = e.w /\ e.ph = e.h THEN {} ELSE {Dev("C18.setsize", "overlap_not_preserved", <<e.w, e.h>>)})>>
      [] e.ev = "Inject" -> <<cb, [s EXCEPT !.expect = @ \o e.expect], IF e.ok THEN {} ELSE {Dev("C18.inject", "reported_failure", e.what)}>>
      [] e.ev = "Drain" ->
           LET gotres == \E i \in 1..Len(e.evs) : e.evs[i] = <<"resize", s.pw, s.ph>> IN
           <<cb, [s EXCEPT !.expect = <<>>, !.pending = IF gotres \/ ~e.aftershow THEN (IF gotres THEN <<>> ELSE @) ELSE <<>>],
             DrainDevs(s, e.evs)
             \cup (IF e.aftershow /\ s.pending # <<>> /\ ~gotres THEN {Dev("C18.setsize", "no_resize_event", s.pending)} ELSE {})>>
      [] OTHER -> <<cb, s, {}>>

Report(e, devs) == \A d \in devs : PrintT("@@V " \o ToJson(d @@ [l |-> l, ev |-> e.ev, cs |-> cfg.cs]))

Init == l = 1 /\ cfg = [cs |-> ""] /\ cb = CB!EmptyBuf /\ s = InitS /\ nviol = 0
Next == /\ l <= Len(Trace) /\ l' = l + 1
        /\ LET e == Trace[l] IN
           IF e.ev = "Reset" THEN cfg' = [cs |-> ""] /\ cb' = CB!EmptyBuf /\ s' = InitS /\ nviol' = nviol
           ELSE IF e.ev = "Config" THEN cfg' = e /\ cb' = CB!ReqResize(CB!EmptyBuf, 80, 25)
                                        /\ s' = [InitS EXCEPT !.fb = e.fb0] /\ nviol' = nviol
           ELSE LET r == Handle(e) IN
                cb' = r[1] /\ s' = r[2] /\ cfg' = cfg /\ Report(e, r[3]) /\ nviol' = nviol + Cardinality(r[3])
Spec == Init /\ [][Next]_vars
Accepted == TLCGet("stats").diameter - 1 = Len(Trace)
Done == l > Len(Trace) => PrintT("@@DONE " \o ToString(nviol) \o " " \o ToString(Len(Trace)))
=============================================================================

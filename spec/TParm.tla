-------------------------------- MODULE TParm --------------------------------
(***************************************************************************)
(* The terminfo(5) parameterized-string stack machine (property C07),      *)
(* written from the manual page as a small-step machine.                   *)
(*                                                                         *)
(* A value is <<0, n>> (integer) or <<1, s>> (string, a byte sequence).    *)
(* A machine state m = [p, pc, stk, out, prm, dyn, sta, done]:             *)
(* program bytes, program counter, stack (top is the last element),        *)
(* output bytes, the nine parameters, dynamic variables a-z (per call),    *)
(* static variables A-Z (survive calls).                                   *)
(*                                                                         *)
(* TStep executes the token at pc.  Conditionals are structural: a false   *)
(* %t skips to the matching %e or %; at the same nesting level, an         *)
(* executed %e skips to the matching %;  (else-if chains are nested else   *)
(* parts, so they fall out of the same two rules).                         *)
(***************************************************************************)
EXTENDS Integers, Sequences

PCT == 37      \* '%'

I(n) == <<0, n>>
S(s) == <<1, s>>
IntOf(v) == IF v[1] = 0 THEN v[2] ELSE 0
StrOf(v) == IF v[1] = 1 THEN v[2] ELSE <<>>

ZeroVars == [i \in 1..26 |-> I(0)]

Start(p, prm, sta) ==
    [p |-> p, pc |-> 1, stk |-> <<>>, out |-> <<>>,
     prm |-> [i \in 1..9 |-> IF i <= Len(prm) THEN prm[i] ELSE I(0)],
     dyn |-> ZeroVars, sta |-> sta, done |-> Len(p) = 0, rf |-> FALSE]

\* ---- stack --------------------------------------------------------------
Top(m) == IF m.stk = <<>> THEN I(0) ELSE m.stk[Len(m.stk)]
Pop(m) == IF m.stk = <<>> THEN m ELSE [m EXCEPT !.stk = SubSeq(@, 1, Len(@) - 1)]
Push(m, v) == [m EXCEPT !.stk = Append(@, v)]
Second(m) == Top(Pop(m))
Bool(b) == IF b THEN I(1) ELSE I(0)

\* ---- number formatting --------------------------------------------------
RECURSIVE Digits(_, _)
Digits(n, base) == IF n < base THEN <<n>> ELSE Append(Digits(n \div base, base), n % base)
DigitChar(d, upper) == IF d < 10 THEN 48 + d ELSE (IF upper THEN 55 ELSE 87) + d
NumStr(n, base, upper) == LET ds == Digits(n, base) IN [k \in 1..Len(ds) |-> DigitChar(ds[k], upper)]
Dec(n) == IF n < 0 THEN <<45>> \o NumStr(-n, 10, FALSE) ELSE NumStr(n, 10, FALSE)

Rep(b, n) == [k \in 1..(IF n > 0 THEN n ELSE 0) |-> b]

\* printf: f = [minus, plus, hash, space, zero, width, prec (-1 none), conv]
FmtInt(f, n) ==
    LET base == IF f.conv = 100 THEN 10 ELSE IF f.conv = 111 THEN 8 ELSE 16
        mag  == IF n < 0 THEN -n ELSE n
        d0   == NumStr(mag, base, f.conv = 88)
        d1   == IF f.prec >= 0 THEN Rep(48, f.prec - Len(d0)) \o (IF f.prec = 0 /\ mag = 0 THEN <<>> ELSE d0) ELSE d0
        pre  == IF f.conv = 100
                THEN (IF n < 0 THEN <<45>> ELSE IF f.plus THEN <<43>> ELSE IF f.space THEN <<32>> ELSE <<>>)
                ELSE IF f.hash /\ mag # 0
                     THEN (IF f.conv = 111 THEN <<48>> ELSE IF f.conv = 120 THEN <<48, 120>> ELSE <<48, 88>>)
                     ELSE <<>>
        body == pre \o d1
        pad  == f.width - Len(body)
    IN IF f.minus THEN body \o Rep(32, pad)
       ELSE IF f.zero /\ f.prec < 0 THEN pre \o Rep(48, pad) \o d1
       ELSE Rep(32, pad) \o body

FmtStr(f, s) ==
    LET t == IF f.prec >= 0 /\ f.prec < Len(s) THEN SubSeq(s, 1, f.prec) ELSE s
        pad == f.width - Len(t)
    IN IF f.minus THEN t \o Rep(32, pad) ELSE Rep(32, pad) \o t

\* The same with width and precision counted in UTF-8 characters instead of bytes (what Go's fmt does with a
\* string; an invalid byte counts as one character).  Not terminfo(5): kept to classify a known deviation.
RuneLen(s, i) ==
    LET b == s[i]
        n == IF b < 194 THEN 1 ELSE IF b <= 223 THEN 2 ELSE IF b <= 239 THEN 3 ELSE IF b <= 244 THEN 4 ELSE 1
        lo == IF b = 224 THEN 160 ELSE IF b = 240 THEN 144 ELSE 128
        hi == IF b = 237 THEN 159 ELSE IF b = 244 THEN 143 ELSE 191
    IN IF n > 1 /\ i + n - 1 <= Len(s) /\ s[i + 1] >= lo /\ s[i + 1] <= hi
          /\ \A k \in 2..(n - 1) : s[i + k] >= 128 /\ s[i + k] <= 191 THEN n ELSE 1
RECURSIVE RuneEnds(_, _)
RuneEnds(s, i) == IF i > Len(s) THEN <<>> ELSE LET n == RuneLen(s, i) IN <<i + n - 1>> \o RuneEnds(s, i + n)
FmtStrR(f, s) ==
    LET ends == RuneEnds(s, 1)
        t == IF f.prec >= 0 /\ f.prec < Len(ends) THEN (IF f.prec = 0 THEN <<>> ELSE SubSeq(s, 1, ends[f.prec])) ELSE s
        pad == f.width - Len(RuneEnds(t, 1))
    IN IF f.minus THEN t \o Rep(32, pad) ELSE Rep(32, pad) \o t

IsDigit(b) == b >= 48 /\ b <= 57
IsFlag(b) == b \in {45, 43, 35, 32}

RECURSIVE ScanFlags(_, _, _)
\* returns <<flags record, next position>>
ScanFlags(p, i, f) ==
    IF i <= Len(p) /\ IsFlag(p[i])
    THEN ScanFlags(p, i + 1, [f EXCEPT !.minus = @ \/ p[i] = 45, !.plus = @ \/ p[i] = 43,
                                       !.hash = @ \/ p[i] = 35, !.space = @ \/ p[i] = 32])
    ELSE <<f, i>>

RECURSIVE ScanNum(_, _, _)
ScanNum(p, i, acc) == IF i <= Len(p) /\ IsDigit(p[i]) THEN ScanNum(p, i + 1, acc * 10 + p[i] - 48) ELSE <<acc, i>>

\* Parses a printf-style token starting after the '%' at position i (p[i] is the first byte
\* after '%').  Returns [ok, f, next].
ParseFmt(p, i) ==
    LET i1 == IF i <= Len(p) /\ p[i] = 58 THEN i + 1 ELSE i           \* optional ':'
        f0 == [minus |-> FALSE, plus |-> FALSE, hash |-> FALSE, space |-> FALSE, zero |-> FALSE,
               width |-> 0, prec |-> -1, conv |-> 0]
        fl == ScanFlags(p, i1, f0)
        z  == fl[2] <= Len(p) /\ p[fl[2]] = 48
        w  == ScanNum(p, fl[2], 0)
        hasp == w[2] <= Len(p) /\ p[w[2]] = 46
        pr == IF hasp THEN ScanNum(p, w[2] + 1, 0) ELSE <<-1, w[2]>>
        k  == pr[2]
    IN IF k <= Len(p) /\ p[k] \in {100, 111, 120, 88, 115, 99}
       THEN [ok |-> TRUE, next |-> k + 1,
             f |-> [fl[1] EXCEPT !.zero = z, !.width = w[1], !.prec = pr[1], !.conv = p[k]]]
       ELSE [ok |-> FALSE, next |-> i, f |-> f0]

\* ---- conditional skipping (byte-wise, like the reference implementation) ----------
RECURSIVE Skip(_, _, _, _)
\* from pc, find the position just after the matching %e (if stopElse) or %; at nesting level 0
Skip(p, pc, depth, stopElse) ==
    IF pc > Len(p) THEN pc
    ELSE IF p[pc] # PCT \/ pc = Len(p) THEN Skip(p, pc + 1, depth, stopElse)
    ELSE LET c == p[pc + 1] IN
         IF c = 63 THEN Skip(p, pc + 2, depth + 1, stopElse)                                  \* %?
         ELSE IF c = 59 THEN (IF depth = 0 THEN pc + 2 ELSE Skip(p, pc + 2, depth - 1, stopElse))   \* %;
         ELSE IF c = 101 /\ depth = 0 /\ stopElse THEN pc + 2                                 \* %e
         ELSE Skip(p, pc + 2, depth, stopElse)

\* ---- bit operations on non-negative integers ----------------------------
RECURSIVE BitOp(_, _, _)
\* op: 1 and, 2 or, 3 xor
BitOp(a, b, op) ==
    IF a = 0 /\ b = 0 THEN 0
    ELSE LET x == a % 2  y == b % 2
             r == CASE op = 1 -> IF x = 1 /\ y = 1 THEN 1 ELSE 0
                    [] op = 2 -> IF x = 1 \/ y = 1 THEN 1 ELSE 0
                    [] OTHER  -> IF x # y THEN 1 ELSE 0
         IN r + 2 * BitOp(a \div 2, b \div 2, op)

Binary(c, a, b) ==
    CASE c = 43 -> a + b
      [] c = 45 -> a - b
      [] c = 42 -> a * b
      [] c = 47 -> IF b = 0 THEN 0 ELSE (IF (a < 0) = (b < 0) THEN (IF a < 0 THEN (-a) \div (-b) ELSE a \div b)
                                         ELSE -((IF a < 0 THEN -a ELSE a) \div (IF b < 0 THEN -b ELSE b)))
      [] c = 109 -> IF b = 0 THEN 0 ELSE (IF a >= 0 THEN a % (IF b < 0 THEN -b ELSE b)
                                          ELSE -((-a) % (IF b < 0 THEN -b ELSE b)))
      [] c = 38 -> IF a < 0 \/ b < 0 THEN 0 ELSE BitOp(a, b, 1)     \* negative operands: not generated
      [] c = 124 -> IF a < 0 \/ b < 0 THEN 0 ELSE BitOp(a, b, 2)
      [] c = 94 -> IF a < 0 \/ b < 0 THEN 0 ELSE BitOp(a, b, 3)
      [] c = 61 -> IF a = b THEN 1 ELSE 0
      [] c = 62 -> IF a > b THEN 1 ELSE 0
      [] c = 60 -> IF a < b THEN 1 ELSE 0
      [] c = 65 -> IF a # 0 /\ b # 0 THEN 1 ELSE 0
      [] c = 79 -> IF a # 0 \/ b # 0 THEN 1 ELSE 0

BinOps == {43, 45, 42, 47, 109, 38, 124, 94, 61, 62, 60, 65, 79}

\* ---- one step -----------------------------------------------------------
Emit(m, bytes, next) == [m EXCEPT !.out = @ \o bytes, !.pc = next]
Goto(m, next) == [m EXCEPT !.pc = next]

TStep(m0) ==
    LET p == m0.p  pc == m0.pc IN
    IF pc > Len(p) THEN [m0 EXCEPT !.done = TRUE]
    ELSE LET m1 ==
      IF p[pc] # PCT THEN Emit(m0, <<p[pc]>>, pc + 1)
      ELSE IF pc = Len(p) THEN Goto(m0, pc + 1)                       \* dangling '%': nothing
      ELSE LET c == p[pc + 1] IN
        CASE c = PCT -> Emit(m0, <<PCT>>, pc + 2)
          [] c = 105 -> [Goto(m0, pc + 2) EXCEPT                       \* %i
                           !.prm[1] = IF @[1] = 0 THEN I(@[2] + 1) ELSE @,
                           !.prm[2] = IF @[1] = 0 THEN I(@[2] + 1) ELSE @]
          [] c = 112 /\ pc + 2 <= Len(p) /\ p[pc + 2] >= 49 /\ p[pc + 2] <= 57 ->   \* %p1..%p9
                Goto(Push(m0, m0.prm[p[pc + 2] - 48]), pc + 3)
          [] c = 80 /\ pc + 2 <= Len(p) /\ p[pc + 2] >= 97 /\ p[pc + 2] <= 122 ->   \* %Pa
                [Goto(Pop(m0), pc + 3) EXCEPT !.dyn[p[pc + 2] - 96] = Top(m0)]
          [] c = 80 /\ pc + 2 <= Len(p) /\ p[pc + 2] >= 65 /\ p[pc + 2] <= 90 ->    \* %PA
                [Goto(Pop(m0), pc + 3) EXCEPT !.sta[p[pc + 2] - 64] = Top(m0)]
          [] c = 103 /\ pc + 2 <= Len(p) /\ p[pc + 2] >= 97 /\ p[pc + 2] <= 122 ->  \* %ga
                Goto(Push(m0, m0.dyn[p[pc + 2] - 96]), pc + 3)
          [] c = 103 /\ pc + 2 <= Len(p) /\ p[pc + 2] >= 65 /\ p[pc + 2] <= 90 ->   \* %gA
                Goto(Push(m0, m0.sta[p[pc + 2] - 64]), pc + 3)
          [] c = 39 /\ pc + 3 <= Len(p) /\ p[pc + 3] = 39 ->                        \* %'c'
                Goto(Push(m0, I(p[pc + 2])), pc + 4)
          [] c = 123 ->                                                             \* %{nn}
                LET n == ScanNum(p, pc + 2, 0) IN
                Goto(Push(m0, I(n[1])), IF n[2] <= Len(p) /\ p[n[2]] = 125 THEN n[2] + 1 ELSE n[2])
          [] c = 108 -> Goto(Push(Pop(m0), I(Len(StrOf(Top(m0))))), pc + 2)         \* %l
          [] c \in BinOps ->
                Goto(Push(Pop(Pop(m0)), I(Binary(c, IntOf(Second(m0)), IntOf(Top(m0))))), pc + 2)
          [] c = 33 -> Goto(Push(Pop(m0), Bool(IntOf(Top(m0)) = 0)), pc + 2)        \* %!
          [] c = 126 -> Goto(Push(Pop(m0), I(-IntOf(Top(m0)) - 1)), pc + 2)         \* %~
          [] c = 63 -> Goto(m0, pc + 2)                                             \* %?
          [] c = 59 -> Goto(m0, pc + 2)                                             \* %;
          [] c = 116 -> IF IntOf(Top(m0)) # 0 THEN Goto(Pop(m0), pc + 2)            \* %t
                        ELSE Goto(Pop(m0), Skip(p, pc + 2, 0, TRUE))
          [] c = 101 -> Goto(m0, Skip(p, pc + 2, 0, FALSE))                         \* %e
          [] OTHER ->
                LET f == ParseFmt(p, pc + 1) IN
                IF ~f.ok THEN Goto(m0, pc + 2)          \* unknown operator: the statement does not say
                ELSE IF f.f.conv = 115 THEN Emit(Pop(m0), IF m0.rf THEN FmtStrR(f.f, StrOf(Top(m0))) ELSE FmtStr(f.f, StrOf(Top(m0))), f.next)
                ELSE IF f.f.conv = 99 THEN Emit(Pop(m0), FmtStr(f.f, <<IntOf(Top(m0)) % 256>>), f.next)
                ELSE Emit(Pop(m0), FmtInt(f.f, IntOf(Top(m0))), f.next)
      IN [m1 EXCEPT !.done = m1.pc > Len(p)]

RECURSIVE Run(_)
Run(m) == IF m.done THEN m ELSE Run(TStep(m))

\* result of evaluating program p with parameters prm and static variables sta
Eval(p, prm, sta) == Run(Start(p, prm, sta))
EvalRuneFmt(p, prm, sta) == Run([Start(p, prm, sta) EXCEPT !.rf = TRUE])

\* ---- well-formedness (C14) ----------------------------------------------
\* every %? has its %; and %t/%e occur inside a conditional; every % starts a known token
RECURSIVE Scan(_, _, _, _)
\* returns [ok, depth, maxparam]
Scan(p, pc, depth, mx) ==
    IF pc > Len(p) THEN [ok |-> depth = 0, mx |-> mx]
    ELSE IF p[pc] # PCT THEN Scan(p, pc + 1, depth, mx)
    ELSE IF pc = Len(p) THEN [ok |-> FALSE, mx |-> mx]
    ELSE LET c == p[pc + 1] IN
      CASE c = 63 -> Scan(p, pc + 2, depth + 1, mx)
        [] c = 59 -> IF depth = 0 THEN [ok |-> FALSE, mx |-> mx] ELSE Scan(p, pc + 2, depth - 1, mx)
        [] c \in {116, 101} -> IF depth = 0 THEN [ok |-> FALSE, mx |-> mx] ELSE Scan(p, pc + 2, depth, mx)
        [] c = 112 -> IF pc + 2 <= Len(p) /\ p[pc + 2] >= 49 /\ p[pc + 2] <= 57
                      THEN Scan(p, pc + 3, depth, IF p[pc + 2] - 48 > mx THEN p[pc + 2] - 48 ELSE mx)
                      ELSE [ok |-> FALSE, mx |-> mx]
        [] c \in {80, 103} -> IF pc + 2 <= Len(p) /\ ((p[pc + 2] >= 97 /\ p[pc + 2] <= 122) \/ (p[pc + 2] >= 65 /\ p[pc + 2] <= 90))
                              THEN Scan(p, pc + 3, depth, mx) ELSE [ok |-> FALSE, mx |-> mx]
        [] c = 39 -> IF pc + 3 <= Len(p) /\ p[pc + 3] = 39 THEN Scan(p, pc + 4, depth, mx) ELSE [ok |-> FALSE, mx |-> mx]
        [] c = 123 -> LET n == ScanNum(p, pc + 2, 0) IN
                      IF n[2] > pc + 2 /\ n[2] <= Len(p) /\ p[n[2]] = 125 THEN Scan(p, n[2] + 1, depth, mx)
                      ELSE [ok |-> FALSE, mx |-> mx]
        [] c \in BinOps \cup {PCT, 105, 108, 33, 126} -> Scan(p, pc + 2, depth, mx)
        [] OTHER -> LET f == ParseFmt(p, pc + 1) IN
                    IF f.ok THEN Scan(p, f.next, depth, mx) ELSE [ok |-> FALSE, mx |-> mx]

WellFormed(p) == Scan(p, 1, 0, 0).ok
MaxParam(p) == Scan(p, 1, 0, 0).mx
=============================================================================

SPECIFICATION Spec
CONSTANTS
  Depth = 1
  GEN = FALSE
INVARIANTS StackBounded Balanced Framed OutputShort
PROPERTIES Terminates
ACTION_CONSTRAINT EmitRun
CHECK_DEADLOCK FALSE

----------------------------- MODULE TParmModel -----------------------------
(***************************************************************************)
(* Design model for C07: the terminfo(5) machine of module TParm is run    *)
(* token by token over every program of a grammar enumerated by            *)
(* DERIVATION DEPTH (a nested conditional needs at least nine tokens, so a *)
(* length bound would never reach the interesting programs) and over all   *)
(* parameter pairs from Vals.  TLC checks that every run terminates (the   *)
(* program counter strictly increases), that the stack stays bounded and   *)
(* is empty at the end, and that the output is framed by the literals      *)
(* placed around the conditional (a skip never overruns its conditional).  *)
(* With GEN = TRUE every completed run is printed for replay through the   *)
(* real Terminfo.TParm.                                                    *)
(***************************************************************************)
EXTENDS TParm, TLC, Json, FiniteSets

CONSTANTS Depth, GEN

VARIABLES m, prm0
vars == <<m, prm0>>

Vals == {0, 1, 2}

P1 == <<37, 112, 49>>      \* %p1
P2 == <<37, 112, 50>>      \* %p2
Dd == <<37, 100>>          \* %d
QM == <<37, 63>>           \* %?
TH == <<37, 116>>          \* %t
EL == <<37, 101>>          \* %e
FI == <<37, 59>>           \* %;

Conds == { P1, P2, P1 \o P2 \o <<37, 60>>, P1 \o <<37, 123, 49, 125, 37, 61>>, <<37, 103, 97>> }   \* %p1 %p2 %p1%p2%< %p1%{1}%= %ga
Body0 == { <<>>, <<97>>, P2 \o Dd, P1 \o <<37, 80, 97>>, <<101>> }     \* "", "a", %p2%d, %p1%Pa, "e"

IfThen(c, a)        == QM \o c \o TH \o a \o FI
IfElse(c, a, b)     == QM \o c \o TH \o a \o EL \o b \o FI
ElseIf(c, a, d, b, e) == QM \o c \o TH \o a \o EL \o d \o TH \o b \o EL \o e \o FI

Cond1Simple == { IfThen(c, a) : c \in Conds, a \in Body0 } \cup { IfElse(c, a, b) : c \in Conds, a \in Body0, b \in Body0 }
Cond1 == Cond1Simple \cup { ElseIf(c, a, d, b, e) : c \in {P1, P2}, a \in {<<97>>, <<>>}, d \in {P2, <<37, 103, 97>>},
                                                     b \in Body0, e \in {<<98>>, P2 \o Dd} }
Body1 == Body0 \cup Cond1Simple
Cond2 == { IfElse(c, a, b) : c \in {P1, P2}, a \in Body1, b \in Body1 }
         \cup { ElseIf(c, a, d, b, e) : c \in {P1}, a \in Cond1Simple, d \in {P2}, b \in {<<97>>}, e \in {<<98>>} }

Frame(c) == <<120>> \o c \o <<121>>          \* x ... y
Progs == { Frame(c) : c \in IF Depth >= 2 THEN Cond1 \cup Cond2 ELSE Cond1 }

Init == \E p \in Progs, a \in Vals, b \in Vals :
            /\ prm0 = <<I(a), I(b)>>
            /\ m = Start(p, prm0, ZeroVars)

Next == ~m.done /\ m' = TStep(m) /\ prm0' = prm0

Spec == Init /\ [][Next]_vars

Terminates == [][m'.pc > m.pc]_vars
StackBounded == Len(m.stk) <= 3
Balanced == m.done => m.stk = <<>>
Framed == m.done => (Len(m.out) >= 2 /\ m.out[1] = 120 /\ m.out[Len(m.out)] = 121)
\* the body literals can appear at most as often as there are branches taken: one per nesting level
OutputShort == Len(m.out) <= 2 + 2 * Depth + 2

EmitRun == (GEN /\ m'.done) => PrintT("@@B " \o ToJson([p |-> m.p, prm |-> prm0]))
=============================================================================

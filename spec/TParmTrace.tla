----------------------------- MODULE TParmTrace -----------------------------
(***************************************************************************)
(* Trace validation for C07 (and the TGoto/TColor/TPuts clauses of C15):   *)
(* every call of the real Terminfo.TParm logged by `vh tparm` is           *)
(* re-evaluated with the terminfo(5) machine of module TParm; static       *)
(* variables are threaded from call to call in log order.                  *)
(***************************************************************************)
EXTENDS TParm, TPuts, TLC, Json, FiniteSets

Trace == ndJsonDeserialize("trace.ndjson")

VARIABLES l, sta, nviol
vars == <<l, sta, nviol>>

Dev(tag, part, info) == [tag |-> tag, part |-> part, info |-> info]

Step(e) ==
    CASE e.ev = "TParm" ->
           IF e.panic \/ e.hang
           THEN <<sta, {Dev(IF e.panic THEN "C07.panic" ELSE "C07.hang", e.kind, e.prog)}>>
           ELSE IF ~e.wf THEN <<sta, {}>>           \* malformed input: only robustness is required
           ELSE LET r == Eval(e.prog, e.prm, sta) IN
                <<r.sta, IF r.out = e.out THEN {}
                         \* a deviation explained entirely by %s width/precision counted in characters is its own class
                         ELSE IF EvalRuneFmt(e.prog, e.prm, sta).out = e.out
                         THEN {Dev("C07.string_format_counts_characters", e.kind, [prog |-> e.prog, prm |-> e.prm, got |-> e.out, want |-> r.out])}
                         ELSE {Dev("C07.output", e.kind, [prog |-> e.prog, prm |-> e.prm, got |-> e.out, want |-> r.out])}>>
      [] e.ev = "TPuts" ->
           <<sta, (IF e.out = Strip(e.s) THEN {} ELSE {Dev("C15.tputs", "strip", [s |-> e.s, got |-> e.out, want |-> Strip(e.s)])})
                  \cup (IF e.panic THEN {Dev("C15.tputs", "panic", e.s)} ELSE {})>>
      [] e.ev = "Sleep" ->
           <<sta, IF (e.pad /\ e.ms >= PadMillis(e.s)) \/ (~e.pad /\ 2 * e.ms < PadMillis(e.s)) THEN {}
                  ELSE {Dev("C15.sleep", IF e.pad THEN "too_short" ELSE "slept_without_pad", [s |-> e.s, ms |-> e.ms])}>>
      [] e.ev = "TGoto" ->
           LET want == GotoExpected(e.conv, e.col, e.row) IN
           <<sta, IF want = <<>> \/ e.out = want THEN {}
                  ELSE {Dev("C15.tgoto", e.conv, [term |-> e.term, col |-> e.col, row |-> e.row, got |-> e.out])}>>
      [] e.ev = "TColor" ->
           LET want == ColorExpected(e.colors, e.fg, e.bg) IN
           <<sta, (IF ColorDecoded(e.out) = want THEN {}
                   ELSE {Dev("C15.tcolor", "pen", [term |-> e.term, fg |-> e.fg, bg |-> e.bg, got |-> e.out])})
                  \* an elided component leaves no residue; the ECMA-48 family only (others are not lexed by Term)
                  \cup (IF e.ecma /\ ~ColorClean(e.out)
                        THEN {Dev("C15.tcolor", "residue", [term |-> e.term, fg |-> e.fg, bg |-> e.bg, got |-> e.out])} ELSE {})>>
      [] OTHER -> <<sta, {}>>

Report(e, devs) == \A d \in devs : PrintT("@@V " \o ToJson(d @@ [l |-> l, ev |-> e.ev]))

Init == l = 1 /\ sta = ZeroVars /\ nviol = 0
Next == /\ l <= Len(Trace)
        /\ l' = l + 1
        /\ LET e == Trace[l]  r == Step(e) IN
           sta' = r[1] /\ Report(e, r[2]) /\ nviol' = nviol + Cardinality(r[2])
Spec == Init /\ [][Next]_vars
Accepted == TLCGet("stats").diameter - 1 = Len(Trace)
Done == l > Len(Trace) => PrintT("@@DONE " \o ToString(nviol) \o " " \o ToString(Len(Trace)))
=============================================================================

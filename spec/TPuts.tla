-------------------------------- MODULE TPuts --------------------------------
(***************************************************************************)
(* C15: padding removal (Strip), cursor-addressing conventions             *)
(* (GotoExpected) and colour selection (ColorExpected, decoded through the *)
(* reference terminal).                                                    *)
(***************************************************************************)
EXTENDS Integers, Sequences

TT == INSTANCE Term

IsDig(b) == b >= 48 /\ b <= 57

RECURSIVE DigitsEnd(_, _)
DigitsEnd(s, i) == IF i <= Len(s) /\ IsDig(s[i]) THEN DigitsEnd(s, i + 1) ELSE i

\* If a well-formed padding specification $<n[.m][*][/]> starts at i, the index just after it, else 0.
PadEnd(s, i) ==
    IF ~(i + 1 <= Len(s) /\ s[i] = 36 /\ s[i + 1] = 60) THEN 0
    ELSE LET d1 == DigitsEnd(s, i + 2) IN
         IF d1 = i + 2 THEN 0                                   \* no digits
         ELSE LET d2 == IF d1 <= Len(s) /\ s[d1] = 46
                        THEN (LET f == DigitsEnd(s, d1 + 1) IN IF f = d1 + 1 THEN 0 ELSE f)
                        ELSE d1
              IN IF d2 = 0 THEN 0
                 ELSE LET f1 == IF d2 <= Len(s) /\ s[d2] \in {42, 47} THEN d2 + 1 ELSE d2
                          f2 == IF f1 > d2 /\ f1 <= Len(s) /\ s[f1] \in {42, 47} /\ s[f1] # s[d2] THEN f1 + 1 ELSE f1
                      IN IF f2 <= Len(s) /\ s[f2] = 62 THEN f2 + 1 ELSE 0

RECURSIVE StripFrom(_, _)
StripFrom(s, i) ==
    IF i > Len(s) THEN <<>>
    ELSE LET e == PadEnd(s, i) IN
         IF e # 0 THEN StripFrom(s, e) ELSE <<s[i]>> \o StripFrom(s, i + 1)
Strip(s) == StripFrom(s, 1)

\* whole milliseconds of the first padding specification (enough for the coarse sleep check)
RECURSIVE NumVal(_, _, _, _)
NumVal(s, i, j, acc) == IF i >= j THEN acc ELSE NumVal(s, i + 1, j, acc * 10 + s[i] - 48)
RECURSIVE PadFrom(_, _)
PadFrom(s, i) == IF i > Len(s) THEN 0
                 ELSE IF PadEnd(s, i) # 0 THEN NumVal(s, i + 2, DigitsEnd(s, i + 2), 0) + PadFrom(s, PadEnd(s, i))
                 ELSE PadFrom(s, i + 1)
PadMillis(s) == PadFrom(s, 1)

\* ---- cursor addressing --------------------------------------------------
RECURSIVE DecDigits(_)
DecDigits(n) == IF n < 10 THEN <<48 + n>> ELSE Append(DecDigits(n \div 10), 48 + (n % 10))

\* <<>> = the convention cannot express the position
GotoExpected(conv, col, row) ==
    CASE conv = "ecma" -> <<27, 91>> \o DecDigits(row + 1) \o <<59>> \o DecDigits(col + 1) \o <<72>>
      [] conv = "off32eq" -> IF row + 32 > 255 \/ col + 32 > 255 THEN <<>> ELSE <<27, 61, row + 32, col + 32>>
      [] conv = "off32Y" -> IF row + 32 > 255 \/ col + 32 > 255 THEN <<>> ELSE <<27, 89, row + 32, col + 32>>
      [] conv = "hp" -> <<27, 38, 97>> \o DecDigits(row) \o <<121>> \o DecDigits(col) \o <<67>>
      [] OTHER -> <<>>

\* ---- colours -------------------------------------------------------------
Fold(colors, c) == IF colors = 8 /\ c > 7 /\ c < 16 THEN c - 8 ELSE c
Want(colors, c) == LET k == Fold(colors, c) IN IF k >= 0 /\ k < colors THEN <<1, k>> ELSE <<0, 0>>
ColorExpected(colors, fg, bg) == <<Want(colors, fg), Want(colors, bg)>>
ColorDecoded(out) == LET t == TT!Feed(TT!NewTerm(2, 1, "utf8", <<>>, {}, {}, TT!NoQuirks), out) IN <<t.fg, t.bg>>
\* the colour string is nothing but well-formed sequences the reference terminal knows
ColorClean(out) == LET t == TT!Feed(TT!NewTerm(2, 1, "utf8", <<>>, {}, {}, TT!NoQuirks), out) IN t.bad = {} /\ t.unk = {} /\ t.lx = "gnd"
=============================================================================

SPECIFICATION Spec
CONSTANTS
  W = 3
  H = 2
  MaxOps = 3
  HasCivis = TRUE
  HasRmam = TRUE
  Ich1Trick = FALSE
  CornerFix = TRUE
  GEN = FALSE
VIEW View
ACTION_CONSTRAINT EmitH
INVARIANTS DisplayOK LockedUntouched NoExtraWrite UnlockRepaints NeverScrolls
CHECK_DEADLOCK FALSE

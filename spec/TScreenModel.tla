---------------------------- MODULE TScreenModel ----------------------------
(***************************************************************************)
(* Design model of the terminfo screen's drawing path (C01, C13, and the   *)
(* blanking clause of C09): tscreen.go's draw / drawCell / showCursor /    *)
(* hideCursor / clearScreen / resize are transcribed over                  *)
(*   - the transcription of cell.go (Impl-operators of module CellBuf) as  *)
(*     the logical screen with its dirty tracking, and                     *)
(*   - the reference terminal of module Term, driven by abstract           *)
(*     operations (GotoXY, PrintCp, InsertChars, ClearAll) instead of      *)
(*     bytes.                                                              *)
(* TLC explores every sequence (up to MaxOps) of SetContent / SetStyle /   *)
(* ShowCursor / Lock / Unlock / Show / Sync / WinResize / Corrupt on a     *)
(* small screen with narrow, wide, zero-width and control runes and checks *)
(*   DisplayOK       after Show/Sync/resize the terminal shows the logical *)
(*                   screen in every unlocked cell, the cursor is where it *)
(*                   was requested (hidden / parked otherwise), nothing    *)
(*                   scrolled;                                             *)
(*   NoExtraWrite    a Show paints only changed cells, columns (un)covered *)
(*                   by changed wide runes and the corner neighbour;       *)
(*   LockedUntouched locked cells are never printed into.                  *)
(* Terminal variants (constants): HasCivis, HasRmam (auto-margin can be    *)
(* switched off), Ich1Trick (auto-margin terminal without rmam but with    *)
(* ich1: the bottom-right corner is painted through an insert).            *)
(* With GEN every transition's shortest history is printed for replay.     *)
(***************************************************************************)
EXTENDS Integers, Sequences, FiniteSets, TLC, Json

CONSTANTS W, H, MaxOps, HasCivis, HasRmam, Ich1Trick, CornerFix, GEN

CB == INSTANCE CellBuf
T == INSTANCE Term

VARIABLES cb,        \* CellBuf implementation state (cells, dirty bits, locks)
          def,       \* default style (SetStyle)
          cur,       \* requested cursor <<x, y>>
          term,      \* the reference terminal
          chg,       \* cells changed since the last draw (C13 bookkeeping)
          unl,       \* cells unlocked since the last draw
          free,      \* the next draw may repaint everything
          trusted,   \* the terminal has not been corrupted since the last full redraw
          shown,     \* the last step was a draw
          stamp0,    \* terminal stamp before the last draw
          tw, th,    \* window size reported by the tty
          lchg, lunl, lfree, ltrusted,   \* chg / unl / free / trusted as they were when the last draw started
          pvis, lvis, \* what the logical screen looked like at the draw before the last one / at the last one
          hist
vars == <<cb, def, cur, term, chg, unl, free, trusted, shown, stamp0, tw, th, lchg, lunl, lfree, ltrusted, pvis, lvis, hist>>

DefaultStyle == CB!DefaultStyle
S1 == <<<<1, 1>>, <<0, 0>>, 0, 0, <<0, 0>>, <<>>, <<>>>>
S2 == <<<<1, 2>>, <<1, 3>>, 0, 0, <<0, 0>>, <<>>, <<>>>>
Styles == {DefaultStyle, S1, S2}

\* rune, go-runewidth's answer
WIDE == 19990
Runes == { <<97, 1>>, <<98, 1>>, <<WIDE, 2>>, <<8203, 0>>, <<7, 0>> }
Sizes == { <<W, H>>, <<W - 1, H>> }

NewTerm(w, h) == [T!NewTerm(w, h, "utf8", {}, {WIDE}, {8203}, T!NoQuirks) EXCEPT !.aw = ~HasRmam]

Init == /\ cb = CB!ImplResize(CB!IEmptyBuf, W, H) /\ def = DefaultStyle /\ cur = <<-1, -1>>
        /\ term = [NewTerm(W, H) EXCEPT !.g = [i \in 1..(W * H) |-> T!Blank(NewTerm(W, H))]]   \* engage cleared the screen
        /\ chg = {} /\ unl = {} /\ free = TRUE /\ trusted = TRUE /\ shown = FALSE /\ stamp0 = 0 /\ tw = W /\ th = H /\ hist = <<>>
        /\ lchg = {} /\ lunl = {} /\ lfree = TRUE /\ ltrusted = TRUE /\ pvis = <<>> /\ lvis = <<>>

---------------------------------------------------------------------------
(* the draw algorithm: S = [cb, t, cx, cy, cst] *)

SetPen(t, st) == [t EXCEPT !.fg = st[1], !.bg = st[2]]
Resolve(st) == IF st = DefaultStyle THEN def ELSE st

\* start column of the glyph that covers column x in row y (row-major rule)
RECURSIVE CoverFrom(_, _, _, _)
CoverFrom(b, y, x, i) == IF i >= x THEN x
                         ELSE LET w == CB!ImplGet(b, i, y)[4] IN
                              IF i + w > x THEN i ELSE CoverFrom(b, y, x, i + w)

RECURSIVE DrawCell(_, _, _, _)
\* returns <<S, width>>; depth guards the single recursive use (the corner trick)
DrawCell(S, x, y, depth) ==
    LET g == CB!ImplGet(S.cb, x, y)
        width0 == g[4]
    IN IF ~CB!ImplDirty(S.cb, x, y) THEN <<S, width0>>
       ELSE
       LET corner == y = S.cb.h - 1 /\ x = S.cb.w - 1 /\ Ich1Trick /\ depth = 0 /\ x > 0
           S1a == IF corner THEN [S EXCEPT !.t = T!GotoXY(S.t, x - 1, y)]
                  ELSE IF S.cy # y \/ S.cx # x THEN [S EXCEPT !.t = T!GotoXY(S.t, x, y), !.cx = x, !.cy = y]
                  ELSE S
           style == Resolve(g[3])
           S2a == IF style # S1a.cst THEN [S1a EXCEPT !.t = SetPen(S1a.t, style), !.cst = style] ELSE S1a
           clipped == x > S.cb.w - width0
           width == IF clipped THEN 1 ELSE width0
           cp == IF clipped THEN 32 ELSE g[1]
           S3 == [S2a EXCEPT !.t = T!PrintCp(S2a.t, cp), !.cb = CB!ImplSetDirty(S2a.cb, x, y, FALSE),
                             !.cx = IF width > 1 THEN -1 ELSE S2a.cx + width]
       IN IF ~corner THEN <<S3, width>>
          ELSE LET rx == IF CornerFix THEN CoverFrom(S3.cb, y, x - 1, 0) ELSE x - 1   \* FALSE: the code as found
                   S4 == [S3 EXCEPT !.t = T!InsertChars(T!GotoXY(S3.t, x - 1, y), 1), !.cy = y, !.cx = x - 1,
                                    !.cb = CB!ImplSetDirty(S3.cb, rx, y, TRUE)]
                   r == DrawCell(S4, rx, y, 1)
               IN <<[r[1] EXCEPT !.t = T!GotoXY(r[1].t, 0, 0), !.cx = 0, !.cy = 0], width>>

RECURSIVE DrawFrom(_, _, _)
DrawFrom(S, x, y) ==
    IF y >= S.cb.h THEN S
    ELSE IF x >= S.cb.w THEN DrawFrom(S, 0, y + 1)
    ELSE LET r == DrawCell(S, x, y, 0)
             S1a == IF r[2] > 1 /\ x + 1 < S.cb.w THEN [r[1] EXCEPT !.cb = CB!ImplSetDirty(r[1].cb, x + 1, y, TRUE)] ELSE r[1]
         IN DrawFrom(S1a, x + r[2], y)

HideCursor(S) == IF HasCivis THEN [S EXCEPT !.t.vis = FALSE]
                 ELSE [S EXCEPT !.t = T!GotoXY(S.t, S.cb.w, S.cb.h), !.cx = S.cb.w, !.cy = S.cb.h]
ShowCursorOp(S) ==
    IF cur[1] < 0 \/ cur[2] < 0 \/ cur[1] >= S.cb.w \/ cur[2] >= S.cb.h THEN HideCursor(S)
    ELSE [S EXCEPT !.t = [T!GotoXY(S.t, cur[1], cur[2]) EXCEPT !.vis = TRUE], !.cx = cur[1], !.cy = cur[2]]

\* resize(): pick up the window size; full: Sync (clear + invalidate)
Draw(full) ==
    LET resized == cb.w # tw \/ cb.h # th
        b0 == IF resized THEN CB!ImplInvalidate(CB!ImplResize(cb, tw, th)) ELSE cb
        b1 == IF full THEN CB!ImplInvalidate(b0) ELSE b0
        t0 == [(IF term.W # tw \/ term.H # th THEN T!Resized(term, tw, th) ELSE term) EXCEPT !.stamp = @ + 1]
        S0 == HideCursor([cb |-> b1, t |-> t0, cx |-> -1, cy |-> -1, cst |-> <<>>])
        S1a == IF full THEN [S0 EXCEPT !.t = T!GotoXY(T!ClearAll(SetPen(S0.t, def)), 0, 0)] ELSE S0
    IN ShowCursorOp(DrawFrom(S1a, 0, 0))

\* expected glyph per cell of buffer b, row-major: <<kind, cp, style>>
RECURSIVE VisRowB(_, _, _)
VisRowB(b, y, x) ==
    IF x >= b.w THEN <<>>
    ELSE LET g == CB!ImplGet(b, x, y) IN
         IF g[4] = 2 /\ x + 1 < b.w THEN <<<<"wide", g[1], g[3]>>, <<"cont", 0, g[3]>>>> \o VisRowB(b, y, x + 2)
         ELSE IF g[4] = 2 THEN <<<<"cell", 32, g[3]>>>> \o VisRowB(b, y, x + 1)
         ELSE <<<<"cell", g[1], g[3]>>>> \o VisRowB(b, y, x + 1)
RECURSIVE VisFromB(_, _)
VisFromB(b, y) == IF y >= b.h THEN <<>> ELSE VisRowB(b, y, 0) \o VisFromB(b, y + 1)
VisOf(b) == VisFromB(b, 0)

---------------------------------------------------------------------------
(* operations *)

Idx(x, y) == y * cb.w + x + 1
InR(x, y) == x >= 0 /\ y >= 0 /\ x < cb.w /\ y < cb.h

Ops == [op : {"SetContent"}, x : 0..(W - 1), y : 0..(H - 1), r : Runes, st : Styles]
       \cup [op : {"SetStyle"}, st : {DefaultStyle, S1}]
       \cup [op : {"ShowCursor"}, x : {0, W}, y : {0, H - 1}]
       \cup [op : {"Lock", "Unlock"}, x : {0, W - 2}, y : {H - 1}]
       \cup [op : {"Show", "Sync"}]
       \cup [op : {"WinSize"}, w : {W, W - 1}, h : {H}]
       \cup [op : {"Corrupt"}]

Do(o) ==
    CASE o.op = "SetContent" ->
           LET b1 == CB!ImplSetContent(cb, o.x, o.y, o.r[1], o.r[2], <<>>, o.st)
               i == Idx(o.x, o.y)
               changed == InR(o.x, o.y) /\ (cb.cells[i].main # b1.cells[i].main \/ cb.cells[i].st # b1.cells[i].st)
               wideinv == InR(o.x, o.y) /\ (cb.cells[i].width = 2 \/ b1.cells[i].width = 2) /\ o.x + 1 < cb.w
           IN /\ cb' = b1
              /\ chg' = chg \cup (IF changed THEN {i} \cup (IF wideinv THEN {i + 1} ELSE {}) ELSE {})
              /\ UNCHANGED <<def, cur, term, unl, free, trusted, tw, th, stamp0, lchg, lunl, lfree, ltrusted, pvis, lvis>> /\ shown' = FALSE
      [] o.op = "SetStyle" -> def' = o.st /\ shown' = FALSE /\ UNCHANGED <<cb, cur, term, chg, unl, free, trusted, tw, th, stamp0, lchg, lunl, lfree, ltrusted, pvis, lvis>>
      [] o.op = "ShowCursor" -> cur' = <<o.x, o.y>> /\ shown' = FALSE /\ UNCHANGED <<cb, def, term, chg, unl, free, trusted, tw, th, stamp0, lchg, lunl, lfree, ltrusted, pvis, lvis>>
      [] o.op = "Lock" -> cb' = CB!ImplLock(cb, o.x, o.y) /\ shown' = FALSE
                          /\ UNCHANGED <<def, cur, term, chg, unl, free, trusted, tw, th, stamp0, lchg, lunl, lfree, ltrusted, pvis, lvis>>
      [] o.op = "Unlock" -> /\ cb' = CB!ImplUnlock(cb, o.x, o.y) /\ shown' = FALSE
                            /\ unl' = IF InR(o.x, o.y) THEN unl \cup {Idx(o.x, o.y)} ELSE unl
                            /\ UNCHANGED <<def, cur, term, chg, free, trusted, tw, th, stamp0, lchg, lunl, lfree, ltrusted, pvis, lvis>>
      [] o.op \in {"Show", "Sync"} ->
           LET S == Draw(o.op = "Sync") IN
           /\ cb' = S.cb /\ term' = S.t /\ stamp0' = term.stamp
           /\ chg' = {} /\ unl' = {} /\ shown' = TRUE
           /\ lchg' = (IF cb.w # tw \/ cb.h # th THEN {} ELSE chg) /\ lunl' = (IF cb.w # tw \/ cb.h # th THEN {} ELSE unl) /\ ltrusted' = trusted
           /\ lfree' = (free \/ o.op = "Sync" \/ cb.w # tw \/ cb.h # th) /\ free' = FALSE
           /\ pvis' = lvis /\ lvis' = VisOf(S.cb)
           /\ trusted' = (trusted \/ o.op = "Sync" \/ cb.w # tw \/ cb.h # th)
           /\ UNCHANGED <<def, cur, tw, th>>
      [] o.op = "WinSize" -> tw' = o.w /\ th' = o.h /\ shown' = FALSE /\ UNCHANGED <<cb, def, cur, term, chg, unl, free, trusted, stamp0, lchg, lunl, lfree, ltrusted, pvis, lvis>>
      [] o.op = "Corrupt" -> /\ term' = [term EXCEPT !.g = [i \in 1..Len(term.g) |-> T!Garbage], !.cx = 0, !.cy = 0, !.fg = <<1, 7>>]
                             /\ trusted' = FALSE /\ shown' = FALSE /\ UNCHANGED <<cb, def, cur, chg, unl, free, tw, th, stamp0, lchg, lunl, lfree, ltrusted, pvis, lvis>>

Next == /\ Len(hist) < MaxOps
        /\ \E o \in Ops : Do(o) /\ hist' = Append(hist, o)
        \* after a draw the "may repaint everything" licence is used up
Spec == Init /\ [][Next]_vars

View == <<cb, def, cur, term, chg, unl, free, trusted, shown, tw, th, lchg, lunl, lfree, ltrusted, pvis, lvis, Len(hist)>>

---------------------------------------------------------------------------
(* properties *)

Locked(i) == cb.cells[i].lock
CellOK(i, v) ==
    LET tc == term.g[i] IN
    IF v[1] = "cont" THEN tc.w = 0 /\ tc.cp = 0
    ELSE /\ tc.cp = v[2] /\ tc.w = (IF v[1] = "wide" THEN 2 ELSE 1)
         /\ (v[3] # DefaultStyle => (tc.fg = v[3][1] /\ tc.bg = v[3][2]))   \* default-style cells: the default at paint time or now

DisplayOK ==
    (shown /\ trusted /\ hist # <<>> /\ hist[Len(hist)].op \in {"Show", "Sync"}) =>
       LET vis == VisOf(cb) IN
       /\ term.W = cb.w /\ term.H = cb.h
       /\ \A i \in 1..Len(vis) : (Locked(i) \/ (vis[i][1] = "cont" /\ Locked(i - 1))) \/ CellOK(i, vis[i])
       /\ ~term.scrolled
       /\ LET inr == cur[1] >= 0 /\ cur[2] >= 0 /\ cur[1] < cb.w /\ cur[2] < cb.h IN
          IF inr THEN term.cx = cur[1] /\ term.cy = cur[2] /\ (HasCivis => term.vis)
          ELSE IF HasCivis THEN ~term.vis ELSE term.cx = cb.w - 1 /\ term.cy = cb.h - 1

Stamped == {i \in 1..Len(term.g) : term.g[i].st > stamp0 /\ ~term.g[i].er}
LockedUntouched == shown => \A i \in Stamped : ~Locked(i) \/ term.g[i].w = 0 \/ term.g[i].cp = -2

\* C13: a Show paints only what changed
Partners(vis, S) == {i + 1 : i \in {j \in S : j <= Len(vis) /\ vis[j][1] = "wide"}} \cup {i - 1 : i \in {j \in S : j <= Len(vis) /\ vis[j][1] = "cont"}}
NoExtraWrite ==
    (shown /\ ltrusted /\ ~lfree) =>
       LET vis == VisOf(cb)
           diff == IF Len(pvis) # Len(vis) THEN 1..Len(vis) ELSE {i \in 1..Len(vis) : pvis[i] # vis[i]}
           base == lchg \cup diff \cup lunl
           a1 == base \cup Partners(vis, base) \cup (IF Len(pvis) = Len(vis) THEN Partners(pvis, base) ELSE {})
           last == cb.w * cb.h
           a2 == IF Ich1Trick /\ last \in a1 /\ last > 1 THEN a1 \cup {last - 1} ELSE a1
           allowed == a2 \cup Partners(vis, a2)
       IN \A i \in Stamped : i \in allowed \/ Locked(i)
UnlockRepaints == shown => \A i \in lunl : Locked(i) \/ i \in Stamped \/ (i <= Len(lvis) /\ lvis[i][1] = "cont")

\* the terminal never scrolls, at any time
NeverScrolls == ~term.scrolled
\* operation records in the shape the harness replays
Out(o) == CASE o.op = "SetContent" -> [op |-> "SetContent", x |-> o.x, y |-> o.y, r |-> o.r[1], st |-> o.st]
            [] o.op \in {"Lock", "Unlock"} -> [op |-> "LockRegion", x |-> o.x, y |-> o.y, w |-> 1, h |-> 1, b |-> o.op = "Lock"]
            [] OTHER -> o
EmitH == (GEN /\ hist' # hist /\ hist'[Len(hist')].op \in {"Show", "Sync"})
            => PrintT("@@B " \o ToJson([k \in 1..Len(hist') |-> Out(hist'[k])]))
=============================================================================

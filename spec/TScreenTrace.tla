---------------------------- MODULE TScreenTrace ----------------------------
(***************************************************************************)
(* Trace specification of the terminfo screen (tscreen.go) - properties    *)
(* C01 (display = logical screen), C04 (modes restored / tty contract /    *)
(* resume), C09 (well-formed output, no injection) and C13 (only changed   *)
(* cells repainted, locked cells untouched).                               *)
(*                                                                         *)
(* A log ("trace.ndjson", written by `vh screen`) is a concatenation of     *)
(* histories.  Each starts with Reset and Config (terminal description,    *)
(* window size, rune classes, nearest-palette tables) and continues with   *)
(* one event per API call carrying the call's arguments and `out`, the     *)
(* Tty.Write blocks it caused (`tty` lists every Tty call in order).       *)
(*                                                                         *)
(* The spec keeps                                                          *)
(*   term : the reference terminal (module Term) fed with every block,     *)
(*   cb   : the logical screen, maintained with the requirement operators  *)
(*          of module CellBuf from the logged arguments (not GetContent),  *)
(*   scr  : the remaining logical state (default style, cursor, modes the  *)
(*          application enabled, tty-contract automaton, C13 bookkeeping). *)
(* Monitors are evaluated after the event; a failing monitor is reported   *)
(* ("@@V" line) and never disables the step.  Tags starting with EXTRA are  *)
(* coverage beyond the listed properties and are not verdicts.             *)
(***************************************************************************)
EXTENDS Integers, Sequences, FiniteSets, TLC, Json

Trace == ndJsonDeserialize("trace.ndjson")

T == INSTANCE Term
CB == INSTANCE CellBuf

VARIABLES l, cfg, term, cb, scr, nviol
vars == <<l, cfg, term, cb, scr, nviol>>

DefCol == <<0, 0>>
DefaultStyle == CB!DefaultStyle

---------------------------------------------------------------------------
(* Configuration derived from the Config event *)

Cap(c, name) == c.ti[name]                      \* byte string; <<>> when absent
Has(c, name) == c.ti[name] # <<>>

IsLinux(c) == \E i \in 1..(Len(c.ti.Name) - 4) :
                  SubSeq(c.ti.Name, i, i + 4) = <<108, 105, 110, 117, 120>>
MouseLike(c) == Has(c, "Mouse") \/ c.xtermlike
StyledUl(c, cap) == Has(c, cap) \/ c.xtermlike
HasCurly(c) == StyledUl(c, "CurlyUnderline")
HasUlColor(c) == Has(c, "UnderlineColor") \/ HasCurly(c)
HasUrl(c) == ~IsLinux(c) /\ (Has(c, "EnterUrl") \/ MouseLike(c))
HasPaste(c) == Has(c, "EnablePaste") \/ MouseLike(c)
HasFocus(c) == ~IsLinux(c) /\ (Has(c, "EnableFocusReporting") \/ MouseLike(c))
HasCursorStyles(c) == Has(c, "CursorDefault") \/ MouseLike(c)
Ich1Trick(c) == c.ti.AutoMargin /\ ~Has(c, "DisableAutoMargin") /\ Has(c, "InsertChar")

Quirks(c) == LET sf == Cap(c, "EnterAcs") \in {<<27, 91, 49, 49, 109>>, <<27, 91, 49, 50, 109>>}
                 ac == c.ti.AltChars
             IN [ffclear |-> Cap(c, "Clear") = <<12>>, sgrfont |-> sf,
                 \* CP437-style maps place glyphs on control codes (arrows at 0x10 0x11 0x18 0x19)
                 fontctl |-> IF sf THEN {ac[2 * k] : k \in {j \in 1..(Len(ac) \div 2) : ac[2 * j] < 32}} ELSE {}]

Key(col) == "c" \o ToString(col[1]) \o "_" \o ToString(col[2])

---------------------------------------------------------------------------
(* What the terminal must show for a logical style *)

OpPen(c) == LET t == T!Feed(T!NewTerm(1, 1, "utf8", <<>>, {}, {}, T!NoQuirks), Cap(c, "ResetFgBg"))
            IN <<t.fg, t.bg>>

\* acceptable terminal colours for a requested fg/bg colour; which = 1 fg, 2 bg
ExpColour(c, col, which) ==
    IF c.ti.Colors = 0 THEN {DefCol}
    ELSE CASE col[1] \in {0, 3} -> {DefCol, c.oppen[which]}
           [] col[1] = 1 -> IF col[2] < c.ti.Colors /\ col[2] < 256 THEN {col}
                            ELSE {<<1, k>> : k \in {c.near[Key(col)][j] : j \in 1..Len(c.near[Key(col)])}}
           [] col[1] = 2 -> IF c.truecolor /\ Has(c, IF which = 1 THEN "SetFgRGB" ELSE "SetBgRGB") THEN {col}
                            ELSE {<<1, k>> : k \in {c.near[Key(col)][j] : j \in 1..Len(c.near[Key(col)])}}
           [] OTHER -> {DefCol}

Bit(n, b) == (n \div b) % 2 = 1
ExpAttrs(c, at) ==
      (IF Bit(at, 1) /\ Has(c, "Bold") THEN 1 ELSE 0)
    + (IF Bit(at, 2) /\ Has(c, "Blink") THEN 2 ELSE 0)
    + (IF Bit(at, 4) /\ Has(c, "Reverse") THEN 4 ELSE 0)
    + (IF Bit(at, 16) /\ Has(c, "Dim") THEN 16 ELSE 0)
    + (IF Bit(at, 32) /\ Has(c, "Italic") THEN 32 ELSE 0)
    + (IF Bit(at, 64) /\ Has(c, "StrikeThrough") THEN 64 ELSE 0)

UlCap(us) == CASE us = 2 -> "DoubleUnderline" [] us = 3 -> "CurlyUnderline"
               [] us = 4 -> "DottedUnderline" [] us = 5 -> "DashedUnderline" [] OTHER -> "Underline"
ExpUs(c, us) == IF us = 0 THEN 0
                ELSE IF us >= 2 /\ StyledUl(c, UlCap(us)) THEN us
                ELSE IF Has(c, "Underline") THEN 1 ELSE 0

\* st = <<fg, bg, attrs, ulstyle, ulcolour, url, urlid>>; tc a terminal cell
StyleWrong(c, tc, st) ==
    LET eus == ExpUs(c, st[4])
        mono == c.ti.Colors = 0 /\ st[1][1] \in {1, 2}       \* documented luminance hack: reverse unconstrained
        eat == ExpAttrs(c, st[3])
        atok == IF mono THEN (tc.at = eat \/ tc.at = (IF Bit(eat, 4) THEN eat - 4 ELSE eat + 4))
                ELSE tc.at = eat
    IN (IF tc.fg \in ExpColour(c, st[1], 1) THEN {} ELSE {"fg"})
       \cup (IF tc.bg \in ExpColour(c, st[2], 2) THEN {} ELSE {"bg"})
       \cup (IF atok THEN {} ELSE {"attrs"})
       \cup (IF tc.us = eus THEN {} ELSE {"ulstyle"})
       \cup (IF eus = 0 \/ ~HasUlColor(c) THEN {}
             ELSE LET uc == st[5] IN
                  IF uc[1] \in {0, 3} THEN (IF tc.uc = DefCol THEN {} ELSE {"ulcolour"})
                  ELSE IF uc[1] = 2 THEN (IF tc.uc = uc THEN {} ELSE {"ulcolour"})
                  ELSE IF uc[1] = 1 THEN (IF tc.uc = <<1, uc[2] % 256>> THEN {} ELSE {"ulcolour"})
                  ELSE {})
       \cup (IF ~HasUrl(c) THEN {}
             ELSE IF tc.link = (IF st[6] = <<>> THEN <<>> ELSE <<st[6], st[7]>>) THEN {} ELSE {"link"})

---------------------------------------------------------------------------
(* The visible rendering of the logical screen, row-major *)

\* entry: [k, cp, comb, st]  k: "cell" narrow, "wide", "cont", "blank"
RECURSIVE VisRow(_, _, _)
VisRow(b, y, x) ==
    IF x >= b.w THEN <<>>
    ELSE LET c == b.cells[CB!Idx(b, x, y)] IN
         IF c.wc = 2 /\ x + 1 < b.w
         THEN <<[k |-> "wide", cp |-> c.cp, comb |-> c.comb, st |-> c.st],
                [k |-> "cont", cp |-> c.cp, comb |-> c.comb, st |-> c.st]>> \o VisRow(b, y, x + 2)
         ELSE IF c.wc = 2 THEN <<[k |-> "blank", cp |-> 32, comb |-> <<>>, st |-> c.st]>> \o VisRow(b, y, x + 1)
         ELSE IF c.wc = 0 \/ c.cp < 32
              THEN <<[k |-> "blank", cp |-> 32, comb |-> c.comb, st |-> c.st]>> \o VisRow(b, y, x + 1)
         ELSE <<[k |-> "cell", cp |-> c.cp, comb |-> c.comb, st |-> c.st]>> \o VisRow(b, y, x + 1)

RECURSIVE VisFrom(_, _)
VisFrom(b, y) == IF y >= b.h THEN <<>> ELSE VisRow(b, y, 0) \o VisFrom(b, y + 1)
Vis(b) == VisFrom(b, 0)

---------------------------------------------------------------------------
(* C17: what a rune looks like on a terminal whose locale is a legacy character set *)

Encodable(c, r) == c.cs = "utf8" \/ r < 128 \/ \E i \in 1..Len(c.dec) : c.dec[i][2] = r

\* VT100 line-drawing names of terminfo(5) and the runes they stand for (names on which sources
\* disagree - h board, i lantern - and the non-terminfo b c d e are left out)
AcsNameRune == << <<43, 8594>>, <<44, 8592>>, <<45, 8593>>, <<46, 8595>>, <<48, 9608>>, <<96, 9670>>, <<97, 9618>>,
                  <<102, 176>>, <<103, 177>>, <<106, 9496>>, <<107, 9488>>, <<108, 9484>>, <<109, 9492>>, <<110, 9532>>,
                  <<111, 9146>>, <<112, 9147>>, <<113, 9472>>, <<114, 9148>>, <<115, 9149>>, <<116, 9500>>, <<117, 9508>>,
                  <<118, 9524>>, <<119, 9516>>, <<120, 9474>>, <<121, 8804>>, <<122, 8805>>, <<123, 960>>, <<124, 8800>>,
                  <<125, 163>>, <<126, 183>> >>
\* byte the terminal wants for rune r in alternate-character-set mode; 0 if the description has none
AcsByte(c, r) ==
    LET names == {AcsNameRune[i][1] : i \in {k \in 1..Len(AcsNameRune) : AcsNameRune[k][2] = r}}
        ac == c.ti.AltChars
        hits == {k \in 1..(Len(ac) \div 2) : ac[2 * k - 1] \in names}
    IN IF hits = {} THEN 0 ELSE ac[2 * (CHOOSE k \in hits : \A j \in hits : k <= j)]
Unsure(c, r) == \* runes whose ACS name is disputed: nothing is required of them
    r \in {9617, 9618, 167, 9731, 9225, 9228, 9227, 9226}
FbChar(fb, r) == LET hits == {i \in 1..Len(fb) : fb[i][1] = r} IN
                 IF hits = {} THEN <<>> ELSE fb[CHOOSE i \in hits : \A j \in hits : i >= j][2]

\* expected glyph of a primary rune: <<code point or ACS byte, acs flag>>
Glyph(c, fb, r) ==
    IF Encodable(c, r) THEN <<r, FALSE>>
    ELSE IF AcsByte(c, r) # 0 THEN <<AcsByte(c, r), TRUE>>
    ELSE IF Len(FbChar(fb, r)) = 1 THEN <<FbChar(fb, r)[1], FALSE>>
    ELSE <<63, FALSE>>

Resolve(st, def) == IF st = DefaultStyle THEN def ELSE st

\* parts of terminal cell tc that are wrong for visible entry v (default style def, or the
\* default in force when the cell was last painted, pdef)
CellWrong(c, fb, tc, v, pv, def, pdef) ==
    LET legacywide == c.cs # "utf8" /\ ~Encodable(c, v.cp)      \* a wide rune the charset lacks: "? " in two narrow cells
        styleW == LET w1 == StyleWrong(c, tc, Resolve(v.st, def)) IN
                  IF w1 = {} \/ v.st # DefaultStyle THEN w1
                  ELSE IF StyleWrong(c, tc, Resolve(v.st, pdef)) = {} THEN {} ELSE w1
    IN
    \* a fallback must be as wide as its rune (documented): two characters for a wide one, shown in the two columns;
    \* a one-character fallback registered for a wide rune breaks that precondition and nothing is required
    IF v.k = "cont" THEN
        IF legacywide THEN LET f == FbChar(fb, pv.cp) IN
             IF Len(f) = 1 THEN {}
             ELSE (IF tc.cp = (IF Len(f) = 2 THEN f[2] ELSE 32) /\ tc.w = 1 THEN {} ELSE {"rune"})
        ELSE (IF tc.w = 0 /\ tc.cp = 0 THEN {} ELSE {"cont"})
    ELSE IF v.k = "wide" /\ legacywide THEN LET f == FbChar(fb, v.cp) IN
        IF Len(f) = 1 THEN {}
        ELSE (IF tc.cp = (IF Len(f) = 2 THEN f[1] ELSE 63) /\ tc.w = 1 THEN {} ELSE {"rune"}) \cup styleW
    ELSE IF c.cs # "utf8" /\ Unsure(c, v.cp) /\ ~Encodable(c, v.cp) THEN {}
    ELSE LET g == Glyph(c, fb, v.cp)
             comb == IF c.cs = "utf8" THEN v.comb ELSE SelectSeq(v.comb, LAMBDA x : Encodable(c, x))
         IN (IF tc.cp = g[1] /\ tc.acs = g[2] THEN {} ELSE {"rune"})
            \cup (IF tc.comb = comb THEN {} ELSE {"comb"})
            \cup (IF tc.w = (IF v.k = "wide" THEN 2 ELSE 1) THEN {} ELSE {"width"})
            \cup styleW

---------------------------------------------------------------------------
(* Logical screen state *)

InitScr == [fb |-> <<>>, def |-> DefaultStyle, pdef |-> <<>>, curx |-> -1, cury |-> -1, cstyle |-> 0, ccol |-> <<4, 1>>,
            crgb |-> 0, eshape |-> -1, eccol |-> DefCol,
            running |-> FALSE, fini |-> FALSE, mflags |-> 0, paste |-> FALSE, focus |-> FALSE,
            title |-> <<>>, trusted |-> FALSE, tw |-> 0, th |-> 0,
            chg |-> {}, unl |-> {}, pvis |-> <<>>, free |-> TRUE,
            tty |-> "new", cbreg |-> FALSE, titleAtEngage |-> <<>>, depthAtEngage |-> 0, pushed |-> FALSE]

NoCfg == [term |-> ""]

\* cells of b whose content differs between b and b2 (same size)
Changed(b, b2) == IF b.w # b2.w \/ b.h # b2.h THEN {}
                  ELSE {i \in 1..Len(b.cells) :
                          LET p == b.cells[i] n == b2.cells[i] IN
                          p.cp # n.cp \/ p.comb # n.comb \/ p.st # n.st}

Region(b, x, y, w, h) == {CB!Idx(b, i, j) : i \in {k \in x..(x + w - 1) : k >= 0 /\ k < b.w},
                                            j \in {k \in y..(y + h - 1) : k >= 0 /\ k < b.h}}

RECURSIVE LockAll(_, _, _)
LockAll(b, idxs, lock) ==
    IF idxs = {} THEN b
    ELSE LET i == CHOOSE k \in idxs : TRUE
             x == (i - 1) % b.w  y == (i - 1) \div b.w
         IN LockAll(IF lock THEN CB!ReqLock(b, x, y) ELSE CB!ReqUnlock(b, x, y), idxs \ {i}, lock)

---------------------------------------------------------------------------
(* Tty contract automaton (C04) *)

RECURSIVE TtyRun(_, _, _, _)
\* a = [st, cb, bad], names = sequence of call names, inFini = event is Fini
TtyRun(a, names, k, inFini) ==
    IF k > Len(names) THEN a
    ELSE LET n == names[k] IN
      TtyRun(
        CASE n = "NotifyResize" -> [a EXCEPT !.cb = TRUE,
                                     !.bad = IF a.st = "closed" THEN @ \cup {"call_after_close"} ELSE @]
          [] n = "NotifyResizeNil" -> [a EXCEPT !.cb = FALSE,
                                     !.bad = IF a.st = "closed" THEN @ \cup {"call_after_close"} ELSE @]
          [] n = "Start" -> [a EXCEPT !.st = "started", !.afterStop = FALSE,
                                     !.bad = IF a.st \in {"new", "stopped"} THEN @ ELSE @ \cup {"start_in_" \o a.st}]
          [] n = "Write" -> [a EXCEPT !.bad = IF a.st \in {"started", "drained"} THEN @
                                              ELSE IF a.st = "stopped" /\ ~a.afterStop THEN @
                                              ELSE @ \cup {"write_in_" \o a.st}]
          [] n = "Drain" -> [a EXCEPT !.st = IF a.st = "started" THEN "drained" ELSE @,
                                     !.bad = IF a.st \in {"started", "drained"} THEN @ ELSE @ \cup {"drain_in_" \o a.st}]
          [] n = "Stop" -> [a EXCEPT !.st = "stopped", !.afterStop = TRUE,
                                     !.bad = @ \cup (IF a.st = "drained" THEN {} ELSE {"stop_without_drain"})
                                               \cup (IF a.cb THEN {"stop_with_resize_callback"} ELSE {})]
          [] n = "Close" -> [a EXCEPT !.st = "closed",
                                     !.bad = @ \cup (IF a.st = "stopped" THEN {} ELSE {"close_in_" \o a.st})
                                               \cup (IF inFini THEN {} ELSE {"close_outside_fini"})]
          [] OTHER -> a,
        names, k + 1, inFini)

---------------------------------------------------------------------------
(* Monitors *)

Dev(tag, part, x, y, info) == [tag |-> tag, part |-> part, x |-> x, y |-> y, info |-> info]

ExpectedMouse(f) == (IF Bit(f, 1) THEN {1000} ELSE {}) \cup (IF Bit(f, 2) THEN {1002} ELSE {})
                    \cup (IF Bit(f, 4) THEN {1003} ELSE {}) \cup (IF f % 8 # 0 THEN {1006} ELSE {})

\* C01: the display equals the logical screen
DisplayDevs(c, t, b, s) ==
    IF t.W # b.w \/ t.H # b.h THEN {Dev("C01.size", "size", b.w, b.h, <<t.W, t.H>>)}
    ELSE
    LET vis == Vis(b) IN
    UNION { LET cell == b.cells[i] IN
            IF cell.lock # 0 \/ (vis[i].k = "cont" /\ b.cells[i-1].lock # 0) THEN {}
            \* the only cell of the bottom line of a one-column screen is a class of its own (finding F40: the corner
            \* trick of auto-margin terminals needs a second column)
            ELSE { Dev(IF b.w = 1 /\ i = Len(b.cells) THEN "C01.corner_one_column" ELSE "C01.cell", p, (i - 1) % b.w, (i - 1) \div b.w,
                       [k |-> vis[i].k, cp |-> vis[i].cp, got |-> t.g[i].cp])
                   : p \in CellWrong(c, s.fb, t.g[i], vis[i], IF i > 1 THEN vis[i-1] ELSE vis[i], s.def, s.pdef[i]) }
          : i \in 1..Len(b.cells) }
    \cup (IF t.scrolled THEN {Dev("C01.scrolled", "scroll", 0, 0, 0)} ELSE {})
    \cup (LET inr == s.curx >= 0 /\ s.cury >= 0 /\ s.curx < b.w /\ s.cury < b.h IN
          IF inr THEN (IF t.vis /\ t.cx = s.curx /\ t.cy = s.cury /\ ~t.pend THEN {}
                       ELSE {Dev("C01.cursor", "shown", s.curx, s.cury, <<t.vis, t.cx, t.cy>>)})
          ELSE IF Has(c, "HideCursor") THEN (IF ~t.vis THEN {} ELSE {Dev("C01.cursor", "hidden", s.curx, s.cury, <<t.vis, t.cx, t.cy>>)})
          ELSE (IF t.cx = b.w - 1 /\ t.cy = b.h - 1 THEN {}
                ELSE {Dev("C01.cursor", "parked", s.curx, s.cury, <<t.vis, t.cx, t.cy>>)}))

\* C09: the stream is well formed
StreamDevs(t0, t) ==
    {Dev("C09.malformed", "lexer", 0, 0, x) : x \in t.bad \ t0.bad}
    \cup {Dev("EXTRA.unknown_sequence", "lexer", 0, 0, x) : x \in t.unk \ t0.unk}

\* Init / Resume / Suspend / Fini and the mode calls write capability strings only: any character that reaches the display
\* there is residue of the parameter or padding language (or raw text that should have been a sequence)
NoText(t0, t) ==
    IF \E i \in 1..Len(t.g) : t.g[i].st > t0.stamp /\ ~t.g[i].er
    THEN {Dev("C09.residue", "text_outside_a_draw", 0, 0,
              LET i == CHOOSE j \in 1..Len(t.g) : t.g[j].st > t0.stamp /\ ~t.g[j].er IN <<i, t.g[i].cp>>)}
    ELSE {}

\* registers a draw must not touch (C09: content cannot act as a control sequence)
Untouched(t0, t) ==
    {Dev("C09.injection", p, 0, 0, 0) : p \in
        (IF t.alt = t0.alt THEN {} ELSE {"altscreen"}) \cup (IF t.ckm = t0.ckm /\ t.kpam = t0.kpam THEN {} ELSE {"keypad"})
        \cup (IF t.mouse = t0.mouse THEN {} ELSE {"mouse"}) \cup (IF t.paste = t0.paste THEN {} ELSE {"paste"})
        \cup (IF t.focus = t0.focus THEN {} ELSE {"focus"}) \cup (IF t.aw = t0.aw THEN {} ELSE {"autowrap"})
        \cup (IF t.title = t0.title /\ t.tstack = t0.tstack THEN {} ELSE {"title"})
        \cup (IF t.bells = t0.bells THEN {} ELSE {"bell"}) \cup (IF t.clip = t0.clip THEN {} ELSE {"clipboard"})
        \* DEC mode 12 (cursor blink) and ANSI mode 34 belong to the cursor-appearance strings cnorm/civis
        \cup (IF t.modes \ {12} = t0.modes \ {12} /\ t.amodes \ {34} = t0.amodes \ {34} THEN {} ELSE {"modes"})
        \cup (IF t.winreq = t0.winreq THEN {} ELSE {"window"})}

\* C13: only changed cells are repainted
Partners(vis, S) == {i + 1 : i \in {j \in S : j <= Len(vis) /\ vis[j].k = "wide"}}
                    \cup {i - 1 : i \in {j \in S : j <= Len(vis) /\ vis[j].k = "cont"}}

RepaintDevs(c, t0, t, b, s) ==
    LET vis == Vis(b)
        stamped == {i \in 1..Len(t.g) : t.g[i].st > t0.stamp /\ ~t.g[i].er}
        diff == IF Len(s.pvis) # Len(vis) THEN 1..Len(vis) ELSE {i \in 1..Len(vis) : s.pvis[i] # vis[i]}
        base == s.chg \cup diff \cup s.unl
        a1 == base \cup Partners(vis, base) \cup (IF Len(s.pvis) = Len(vis) THEN Partners(s.pvis, base) ELSE {})
        last == b.w * b.h
        a2 == IF Ich1Trick(c) /\ last \in a1 /\ last > 1 THEN a1 \cup {last - 1} ELSE a1
        allowed == a2 \cup Partners(vis, a2)
        locked == {i \in 1..Len(b.cells) : b.cells[i].lock = 1}
    IN (IF s.free THEN {}
        ELSE {Dev("C13.extra_write", "cell", (i - 1) % b.w, (i - 1) \div b.w, vis[i].k) : i \in (stamped \ allowed) \ locked})
       \cup {Dev("C13.locked_write", "cell", (i - 1) % b.w, (i - 1) \div b.w, vis[i].k)
             : i \in {j \in stamped \cap locked : t.g[j].w # 0 /\ t.g[j].cp # -2}}
       \* (the bottom cell of a one-column screen on corner-trick terminals cannot be painted: finding F40)
       \cup {Dev(IF b.w = 1 /\ i = last /\ Ich1Trick(c) THEN "C13.unlock_norepaint_one_column" ELSE "C13.unlock_norepaint",
                 "cell", (i - 1) % b.w, (i - 1) \div b.w, vis[i].k)
             : i \in {j \in s.unl : j <= Len(vis) /\ b.cells[j].lock = 0 /\ vis[j].k # "cont" /\ j \notin stamped}}

\* C04: registers at Fini / Suspend return
RestoredDevs(c, t, s) ==
    {Dev("C04.not_restored", p, 0, 0, 0) : p \in
        (IF t.alt THEN {"altscreen"} ELSE {}) \cup (IF t.vis THEN {} ELSE {"cursor_hidden"})
        \cup (IF t.shape = 0 THEN {} ELSE {"cursor_shape"})
        \cup (IF t.ccol = DefCol THEN {} ELSE {"cursor_colour"})
        \cup (IF t.fg \in {DefCol, c.oppen[1]} /\ t.bg \in {DefCol, c.oppen[2]} THEN {} ELSE {"colours"})
        \cup (IF t.at = 0 /\ t.us = 0 THEN {} ELSE {"attributes"})
        \cup (IF ~t.ckm /\ ~t.kpam THEN {} ELSE {"keypad"})
        \cup (IF t.mouse = {} THEN {} ELSE {"mouse"}) \cup (IF t.paste THEN {"paste"} ELSE {})
        \cup (IF t.focus THEN {"focus"} ELSE {}) \cup (IF t.aw THEN {} ELSE {"autowrap"})
        \cup (IF Len(t.tstack) = s.depthAtEngage /\ (~s.pushed \/ t.title = s.titleAtEngage) THEN {} ELSE {"title"})}

ModeDevs(c, t, s, tag) ==
    {Dev(tag, p, 0, 0, 0) : p \in
        (IF ~Has(c, "Mouse") \/ t.mouse = ExpectedMouse(s.mflags) THEN {} ELSE {"mouse"})
        \cup (IF ~HasPaste(c) \/ t.paste = s.paste THEN {} ELSE {"paste"})
        \cup (IF ~HasFocus(c) \/ t.focus = s.focus THEN {} ELSE {"focus"})}

---------------------------------------------------------------------------
(* Event semantics *)

Feed(t, e) == T!FeedBlocks(t, e.out)

\* after a draw: cells stamped by it remember the default style in force
NotePaint(s, t0, t, b) ==
    [s EXCEPT !.pdef = [i \in 1..(b.w * b.h) |->
                          IF i <= Len(t.g) /\ t.g[i].st > t0.stamp THEN s.def
                          ELSE IF i <= Len(s.pdef) THEN s.pdef[i] ELSE s.def],
              !.chg = {}, !.unl = {}, !.pvis = Vis(b), !.free = FALSE]

\* the draw part shared by Show / Sync / Redraw: returns <<term', cb', scr', deviations>>
Draw(e, sync) ==
    LET t0 == IF term.W # scr.tw \/ term.H # scr.th THEN T!Resized(term, scr.tw, scr.th) ELSE term
        resized == cb.w # scr.tw \/ cb.h # scr.th
        b1 == IF resized THEN CB!ReqResize(cb, scr.tw, scr.th) ELSE cb
        t1 == Feed(t0, e)
        s0 == [scr EXCEPT !.free = @ \/ resized \/ sync,
                          !.pdef = IF resized THEN [i \in 1..(b1.w * b1.h) |-> scr.def] ELSE @]
        \* the display is known once a draw has written or erased every cell (Sync, a resize, the first draw after
        \* engage, or any frame that happens to touch them all)
        allnew == Len(t1.g) > 0 /\ \A i \in 1..Len(t1.g) : t1.g[i].st > t0.stamp
        trusted == scr.trusted \/ sync \/ resized \/ allnew
        visible == s0.curx >= 0 /\ s0.cury >= 0 /\ s0.curx < b1.w /\ s0.cury < b1.h
        \* named deviation (cell.go SetDirty): a painted cell that holds rune 0 holds a blank from then on; what the
        \* next frame is compared with (pvis) is the buffer after that normalisation
        b2 == [b1 EXCEPT !.cells = [i \in DOMAIN b1.cells |->
                  IF b1.cells[i].cp = 0 /\ i <= Len(t1.g) /\ t1.g[i].st > t0.stamp /\ t1.g[i].w # 0
                  THEN [b1.cells[i] EXCEPT !.cp = 32, !.wc = 1] ELSE b1.cells[i]]]
        s1 == [NotePaint(s0, t0, t1, b2) EXCEPT !.trusted = trusted,
                   !.eshape = IF visible /\ HasCursorStyles(cfg) THEN s0.cstyle ELSE @,
                   !.eccol = IF ~visible THEN @ ELSE IF s0.ccol[1] = 3 THEN DefCol
                             ELSE IF s0.ccol[1] \in {1, 2} THEN <<2, s0.crgb>> ELSE @]
        devs == (IF trusted THEN DisplayDevs(cfg, t1, b1, NotePaint(s0, t0, t1, b1)) ELSE {})
                \cup (IF trusted /\ scr.trusted THEN RepaintDevs(cfg, t0, t1, b1, s0) ELSE {})
                \cup StreamDevs(t0, t1) \cup Untouched(t0, t1)
                \cup (IF e.sw = b1.w /\ e.sh = b1.h THEN {} ELSE {Dev("EXTRA.size", "size", e.sw, e.sh, <<b1.w, b1.h>>)})
                \cup (IF ~visible \/ ~trusted THEN {}
                      ELSE (IF s1.eshape = -1 \/ t1.shape = s1.eshape THEN {} ELSE {Dev("EXTRA.cursor_style", "shape", 0, 0, <<t1.shape, s1.eshape>>)})
                           \cup (IF t1.ccol = s1.eccol THEN {} ELSE {Dev("EXTRA.cursor_style", "colour", 0, 0, <<t1.ccol, s1.eccol>>)}))
    IN <<t1, b2, s1, devs>>

TtyStep(s, e) ==
    LET a == TtyRun([st |-> s.tty, cb |-> s.cbreg, bad |-> {}, afterStop |-> FALSE], e.tty, 1, e.ev = "Fini")
    \* the life of the Tty ends with the screen's: the first Fini closes it, running or suspended
    IN <<[s EXCEPT !.tty = a.st, !.cbreg = a.cb],
         {Dev("C04.tty_contract", x, 0, 0, e.ev) : x \in a.bad \cup (IF e.ev = "Fini" /\ a.st # "closed" THEN {"not_closed_at_fini"} ELSE {})}>>

\* engage: Init and Resume
Engage(e, b0) ==
    LET t0 == IF term.W # scr.tw \/ term.H # scr.th THEN T!Resized(term, scr.tw, scr.th) ELSE term
        t1 == Feed(t0, e)
        s1 == [scr EXCEPT !.running = TRUE, !.trusted = FALSE, !.free = TRUE,
                          !.titleAtEngage = t0.title, !.depthAtEngage = Len(t0.tstack),
                          !.pdef = [i \in 1..(scr.tw * scr.th) |-> scr.def], !.pvis = <<>>]
        \* whether the engage output saved the title: the stack grew at some point
        s2 == [s1 EXCEPT !.pushed = Len(t1.tstack) > Len(t0.tstack)]
    IN <<t1, CB!ReqResize(b0, scr.tw, scr.th), s2,
         StreamDevs(t0, t1) \cup NoText(t0, t1) \cup ModeDevs(cfg, t1, s2, "C04.resume_modes")
         \cup (IF t1.title = s2.title \/ s2.title = <<>> \/ ~(Has(cfg, "SetWindowTitle") \/ cfg.xtermlike)
               THEN {} ELSE {Dev("EXTRA.title", "resume", 0, 0, 0)})>>

Disengage(e) ==
    LET t1 == Feed(term, e)
        s1 == [scr EXCEPT !.running = FALSE, !.trusted = FALSE, !.fini = e.ev = "Fini"]
    IN <<t1, CB!ReqResize(cb, 0, 0), s1, StreamDevs(term, t1) \cup NoText(term, t1) \cup RestoredDevs(cfg, t1, scr)>>

ModeCall(e, s1) ==
    LET t1 == Feed(term, e) IN
    <<t1, cb, s1, StreamDevs(term, t1) \cup NoText(term, t1)
      \cup (IF s1.running THEN ModeDevs(cfg, t1, s1, "C04.mode_call") ELSE {})>>

\* returns <<term', cb', scr', devs>>
Handle(e) ==
    CASE e.ev = "SetContent" ->
           LET b1 == CB!ReqSetContent(cb, e.x, e.y, e.cp, e.wc, e.comb, e.st)
               ch == Changed(cb, b1)
               \* the column to the right is covered / uncovered when a wide rune is stored or replaced
               pa == {i + 1 : i \in {j \in ch : j % cb.w # 0 /\ (cb.cells[j].wc = 2 \/ b1.cells[j].wc = 2)}}
           IN <<term, b1, [scr EXCEPT !.chg = @ \cup ch \cup pa], {}>>
      [] e.ev = "Fill" ->
           LET b1 == CB!ReqFill(cb, e.cp, e.wc, e.st) IN
           <<term, b1, [scr EXCEPT !.chg = @ \cup Changed(cb, b1)], {}>>
      [] e.ev = "Clear" ->
           LET b1 == CB!ReqFill(cb, 32, 1, DefaultStyle) IN
           <<term, b1, [scr EXCEPT !.chg = @ \cup Changed(cb, b1)], {}>>
      [] e.ev = "SetStyle" -> <<term, cb, [scr EXCEPT !.def = e.st], {}>>
      [] e.ev = "ShowCursor" -> <<term, cb, [scr EXCEPT !.curx = e.x, !.cury = e.y], {}>>
      [] e.ev = "HideCursor" -> <<term, cb, [scr EXCEPT !.curx = -1, !.cury = -1], {}>>
      [] e.ev = "SetCursorStyle" -> <<term, cb, [scr EXCEPT !.cstyle = e.n, !.ccol = e.col, !.crgb = e.rgb], {}>>
      [] e.ev = "LockRegion" ->
           LET reg == Region(cb, e.x, e.y, e.w, e.h) IN
           <<term, LockAll(cb, reg, e.lock), [scr EXCEPT !.unl = IF e.lock THEN @ \ reg ELSE @ \cup reg], {}>>
      \* a suspended or finalized screen has no display to bring up to date: the call draws nothing
      [] e.ev = "Show" -> IF scr.running THEN Draw(e, FALSE) ELSE <<Feed(term, e), cb, scr, {}>>
      [] e.ev = "Sync" -> IF scr.running THEN Draw(e, TRUE) ELSE <<Feed(term, e), cb, scr, {}>>
      [] e.ev = "Hang" -> <<term, cb, scr, {Dev("C01.hang", e.call, 0, 0, 0)}>>
      [] e.ev = "Redraw" ->
           \* the resize notification makes the main loop redraw everything
           IF scr.running THEN Draw(e, TRUE) ELSE <<term, cb, scr, {}>>
      [] e.ev = "WinSize" -> <<term, cb, [scr EXCEPT !.tw = e.w, !.th = e.h], {}>>
      [] e.ev = "Corrupt" ->
           <<[term EXCEPT !.g = [i \in 1..Len(term.g) |-> T!Garbage],
                          !.cx = IF e.x < term.W THEN e.x ELSE 0, !.cy = IF e.y < term.H THEN e.y ELSE 0,
                          !.pend = e.n % 2 = 1, !.fg = <<1, e.n % 8>>, !.bg = <<1, (e.n \div 8) % 8>>,
                          !.at = (e.n \div 64) % 128, !.us = (e.n \div 8192) % 4],
             cb, [scr EXCEPT !.trusted = FALSE], {}>>
      [] e.ev = "Init" -> Engage(e, CB!EmptyBuf)
      [] e.ev = "Resume" -> IF e.err THEN <<Feed(term, e), cb, scr, {}>> ELSE Engage(e, cb)
      [] e.ev \in {"Suspend", "Fini"} ->
           IF scr.running THEN Disengage(e)
           \* on a screen that is not running the call has nothing to undo - but "when Fini() or Suspend() returns" the
           \* terminal is restored whatever came before, mode calls made while it was suspended included
           ELSE LET t1 == Feed(term, e) IN <<t1, cb, [scr EXCEPT !.fini = @ \/ e.ev = "Fini"],
                                             StreamDevs(term, t1) \cup RestoredDevs(cfg, t1, scr)>>
      [] e.ev = "EnableMouse" -> ModeCall(e, [scr EXCEPT !.mflags = e.n])
      [] e.ev = "DisableMouse" -> ModeCall(e, [scr EXCEPT !.mflags = 0])
      [] e.ev = "EnablePaste" -> ModeCall(e, [scr EXCEPT !.paste = TRUE])
      [] e.ev = "DisablePaste" -> ModeCall(e, [scr EXCEPT !.paste = FALSE])
      [] e.ev = "EnableFocus" -> ModeCall(e, [scr EXCEPT !.focus = TRUE])
      [] e.ev = "DisableFocus" -> ModeCall(e, [scr EXCEPT !.focus = FALSE])
      [] e.ev = "SetTitle" -> ModeCall(e, [scr EXCEPT !.title = e.s])
      [] e.ev = "Fallback" ->
           <<term, cb, [scr EXCEPT !.fb = IF e.on THEN Append(@, <<e.r, e.subst>>)
                                          ELSE SelectSeq(@, LAMBDA p : p[1] # e.r)], {}>>
      [] e.ev = "CanDisplay" ->
           LET want == Encodable(cfg, e.r) \/ AcsByte(cfg, e.r) # 0 \/ (e.fb /\ \E i \in 1..Len(scr.fb) : scr.fb[i][1] = e.r) IN
           <<term, cb, scr, IF e.res = want \/ (Unsure(cfg, e.r) /\ ~Encodable(cfg, e.r)) THEN {}
                            ELSE {Dev("C17.candisplay", IF e.fb THEN "with_fallbacks" ELSE "plain", 0, 0, <<e.r, e.res>>)}>>
      [] e.ev = "SetSize" ->
           \* SetSize invalidates the cells and re-reads the window size
           LET t1 == Feed(term, e)
               resized == cb.w # scr.tw \/ cb.h # scr.th
           IN <<t1, IF resized THEN CB!ReqResize(cb, scr.tw, scr.th) ELSE CB!ReqInvalidate(cb),
                [scr EXCEPT !.free = TRUE], StreamDevs(term, t1)>>
      [] OTHER -> LET t1 == Feed(term, e) IN <<t1, cb, scr, StreamDevs(term, t1)>>   \* Beep, SetClipboard, GetClipboard

---------------------------------------------------------------------------

Report(e, devs) ==
    \A d \in devs : PrintT("@@V " \o ToJson(d @@ [l |-> l, ev |-> e.ev, term |-> cfg.term]))

Init == l = 1 /\ cfg = NoCfg /\ term = T!NewTerm(1, 1, "utf8", <<>>, {}, {}, T!NoQuirks)
        /\ cb = CB!EmptyBuf /\ scr = InitScr /\ nviol = 0

Next ==
    /\ l <= Len(Trace)
    /\ l' = l + 1
    /\ LET e == Trace[l] IN
       IF e.ev = "Reset" THEN
            /\ cfg' = NoCfg /\ cb' = CB!EmptyBuf /\ scr' = InitScr /\ nviol' = nviol
            /\ term' = T!NewTerm(1, 1, "utf8", <<>>, {}, {}, T!NoQuirks)
       ELSE IF e.ev = "Config" THEN
            LET c0 == e @@ [oppen |-> <<DefCol, DefCol>>]
                c1 == [c0 EXCEPT !.oppen = OpPen(c0)]
            IN /\ cfg' = c1
               /\ term' = T!NewTerm(e.W, e.H, e.cs, {e.dec[i] : i \in 1..Len(e.dec)}, {e.wide[i] : i \in 1..Len(e.wide)},
                                    {e.zero[i] : i \in 1..Len(e.zero)}, Quirks(c1))
               /\ cb' = CB!EmptyBuf /\ scr' = [InitScr EXCEPT !.tw = e.W, !.th = e.H, !.fb = e.fb0] /\ nviol' = nviol
       ELSE LET r  == Handle(e)
                ts == TtyStep(r[3], e)
                devs == r[4] \cup ts[2]
            IN /\ term' = r[1] /\ cb' = r[2] /\ scr' = ts[1] /\ cfg' = cfg
               /\ Report(e, devs)
               /\ nviol' = nviol + Cardinality(devs)

Spec == Init /\ [][Next]_vars

Accepted == TLCGet("stats").diameter - 1 = Len(Trace)
Done == l > Len(Trace) => PrintT("@@DONE " \o ToString(nviol) \o " " \o ToString(Len(Trace)))
=============================================================================

-------------------------------- MODULE Term --------------------------------
(***************************************************************************)
(* The reference terminal: "a standards-conforming terminal that has       *)
(* interpreted every byte written so far" (C01 C04 C09 C13 C17).           *)
(*                                                                         *)
(* Term is a pure module.  A terminal is a record; Feed(t, bytes) folds    *)
(* the byte-level ECMA-48 lexer (Step) over a written block.  The lexer is *)
(* the definition of "well-formed output" for C09: every anomaly adds a    *)
(* tag to t.bad and never stops the interpretation.  Sequences that lex    *)
(* correctly but are not in the interpreted repertoire are collected in    *)
(* t.unk and otherwise ignored, as real terminals do.                      *)
(*                                                                         *)
(* Modelling decisions (weakest assumption a conforming terminal permits): *)
(*  - deferred wrap (xenl): printing in the last column sets pend; the     *)
(*    next printable wraps, and scrolls at the bottom (t.scrolled);        *)
(*  - a wide glyph occupies two cells; overwriting one half turns the      *)
(*    other half into GARBAGE (equal to no expected cell);                 *)
(*  - erased cells are blanks carrying the pen's background;               *)
(*  - switching between main and alternate screen leaves GARBAGE;          *)
(*  - per-entry quirks (FF clears on sun, SGR 10-12 select the alternate   *)
(*    font on ansi/pcansi/cygwin, CSI ? n c is the linux cursor control)   *)
(*    are switched by t.q, which the trace spec derives from the entry.    *)
(***************************************************************************)
EXTENDS Integers, Sequences, FiniteSets, SequencesExt

ESC == 27
DefCol == <<0, 0>>

Garbage == [cp |-> -2, comb |-> <<>>, w |-> 1, fg |-> DefCol, bg |-> DefCol, at |-> 0, us |-> 0,
            uc |-> DefCol, link |-> <<>>, acs |-> FALSE, st |-> -1, er |-> FALSE]

NoQuirks == [ffclear |-> FALSE, sgrfont |-> FALSE, fontctl |-> {}]   \* fontctl: control bytes that are glyphs in the alternate font

\* cs: "utf8", or "mb": a legacy single- or multi-byte set; sbmap is then the set of <<byte sequence, code point>>
\* pairs of the characters in use (supplied by the trace's Config from an independent encoder)
NewTerm(W, H, cs, sbmap, wide, zero, q) ==
    [W |-> W, H |-> H, g |-> [i \in 1..(W*H) |-> Garbage], cx |-> 0, cy |-> 0, pend |-> FALSE, lp |-> 0,
     fg |-> DefCol, bg |-> DefCol, at |-> 0, us |-> 0, uc |-> DefCol, link |-> <<>>,
     g0 |-> 66, g1 |-> 66, sh |-> 0, font |-> 0,
     aw |-> TRUE, vis |-> TRUE, shape |-> 0, ccol |-> DefCol, lcur |-> -1,
     alt |-> FALSE, ckm |-> FALSE, kpam |-> FALSE, mouse |-> {}, paste |-> FALSE, focus |-> FALSE,
     modes |-> {}, amodes |-> {}, title |-> <<>>, tstack |-> <<>>, sc |-> <<0, 0>>,
     scrolled |-> FALSE, bad |-> {}, unk |-> {}, stamp |-> 0, bells |-> 0, clip |-> <<>>, winreq |-> <<>>,
     lx |-> "gnd", buf |-> <<>>, need |-> 0, acc |-> 0,
     cs |-> cs, sbmap |-> sbmap, wide |-> wide, zero |-> zero, q |-> q]

Idx(t, x, y) == y * t.W + x + 1
Bad(t, tag) == [t EXCEPT !.bad = @ \cup {tag}, !.lx = "gnd", !.buf = <<>>]

\* attribute bits as in tcell: bold 1, blink 2, reverse 4, underline 8, dim 16, italic 32, strike 64
HasBit(n, b) == (n \div b) % 2 = 1
SetBit(n, b) == IF HasBit(n, b) THEN n ELSE n + b
ClrBit(n, b) == IF HasBit(n, b) THEN n - b ELSE n

---------------------------------------------------------------------------
(* Grid operations *)

Blank(t) == [cp |-> 32, comb |-> <<>>, w |-> 1, fg |-> t.fg, bg |-> t.bg, at |-> 0, us |-> 0,
             uc |-> DefCol, link |-> <<>>, acs |-> FALSE, st |-> t.stamp, er |-> TRUE]

\* overwrite cell i; the other half of a wide glyph that loses a half becomes GARBAGE
Put(g, i, c) ==
    LET o  == g[i]
        g1 == IF o.w = 0 /\ i > 1 THEN [g EXCEPT ![i-1] = [Garbage EXCEPT !.st = c.st]] ELSE g
        g2 == IF o.w = 2 /\ i < Len(g) THEN [g1 EXCEPT ![i+1] = [Garbage EXCEPT !.st = c.st]] ELSE g1
    IN [g2 EXCEPT ![i] = c]

AcsOn(t) == t.font # 0 \/ (t.sh = 0 /\ t.g0 = 48) \/ (t.sh = 1 /\ t.g1 = 48)

\* a zero-width character joins the glyph printed last (t.lp); cursor motion forgets it
Combine(t, cp) ==
    IF t.lp = 0 \/ t.lp > Len(t.g) THEN [t EXCEPT !.bad = @ \cup {<<"combining_without_base", <<>>>>}]
    ELSE [t EXCEPT !.g[t.lp] = [@ EXCEPT !.comb = Append(@, cp), !.st = t.stamp]]

PrintCp(t, cp) ==
    IF cp \in t.zero THEN Combine(t, cp)
    ELSE
    LET w    == IF cp \in t.wide THEN 2 ELSE 1
        wrap == (t.pend /\ t.aw) \/ (w = 2 /\ t.cx = t.W - 1 /\ t.aw /\ ~t.pend)
        scr  == wrap /\ t.cy = t.H - 1
        x    == IF wrap THEN 0 ELSE t.cx
        y    == IF wrap /\ ~scr THEN t.cy + 1 ELSE t.cy
        i    == Idx(t, x, y)
        cell == [cp |-> cp, comb |-> <<>>, w |-> w, fg |-> t.fg, bg |-> t.bg, at |-> t.at, us |-> t.us,
                 uc |-> t.uc, link |-> t.link, acs |-> AcsOn(t), st |-> t.stamp, er |-> FALSE]
    IN IF w = 2 /\ x + 1 >= t.W
       THEN \* no room (auto-wrap off, or a one-column screen): the glyph is clipped
            [t EXCEPT !.g = Put(t.g, i, [Garbage EXCEPT !.st = t.stamp]),
                      !.bad = @ \cup {<<"wide_clipped", <<>>>>}, !.cx = x, !.cy = y, !.lp = i,
                      !.pend = t.aw, !.scrolled = @ \/ scr]
       ELSE LET g1 == Put(t.g, i, cell)
                g2 == IF w = 2 THEN Put(g1, i + 1, [cell EXCEPT !.w = 0, !.cp = 0]) ELSE g1
                nx == x + w
            IN [t EXCEPT !.g = g2, !.cy = y, !.scrolled = @ \/ scr, !.lp = i,
                         !.cx = IF nx > t.W - 1 THEN t.W - 1 ELSE nx,
                         !.pend = (nx > t.W - 1) /\ t.aw]

EraseRange(t, from, to) ==
    [t EXCEPT !.lp = 0, !.g = [i \in 1..Len(t.g) |-> IF i >= from /\ i <= to THEN Blank(t) ELSE t.g[i]]]

ClearAll(t) == EraseRange(t, 1, t.W * t.H)

GotoXY(t, x, y) ==
    [t EXCEPT !.cx = IF x < 0 THEN 0 ELSE IF x > t.W - 1 THEN t.W - 1 ELSE x,
              !.cy = IF y < 0 THEN 0 ELSE IF y > t.H - 1 THEN t.H - 1 ELSE y,
              !.pend = FALSE, !.lp = 0]

\* insert n blanks at the cursor, shifting the rest of the line right
InsertChars(t, n) ==
    LET row == t.cy * t.W IN
    [t EXCEPT !.pend = FALSE, !.lp = 0,
              !.g = [i \in 1..Len(t.g) |->
                       LET x == i - 1 - row IN
                       IF x < t.cx \/ x >= t.W THEN t.g[i]
                       ELSE IF x < t.cx + n THEN Blank(t)
                       ELSE LET c == t.g[i - n] IN
                            \* a wide glyph pushed half-way over the margin is lost
                            IF c.w = 2 /\ x = t.W - 1 THEN [Garbage EXCEPT !.st = t.stamp]
                            ELSE [c EXCEPT !.st = t.stamp]]]

LineFeed(t) == IF t.cy = t.H - 1 THEN [t EXCEPT !.scrolled = TRUE, !.lp = 0] ELSE [t EXCEPT !.cy = @ + 1, !.lp = 0]

---------------------------------------------------------------------------
(* Parameter parsing: buf holds the bytes between the introducer and the final byte *)

IsDigit(b) == b >= 48 /\ b <= 57

\* Splits a byte string at separator sep into a sequence of byte strings.
RECURSIVE SplitAt(_, _, _, _)
SplitAt(s, sep, i, cur) ==
    IF i > Len(s) THEN <<cur>>
    ELSE IF s[i] = sep THEN <<cur>> \o SplitAt(s, sep, i + 1, <<>>)
    ELSE SplitAt(s, sep, i + 1, Append(cur, s[i]))
Split(s, sep) == SplitAt(s, sep, 1, <<>>)

\* Splits only at the first occurrence.
RECURSIVE FirstSep(_, _, _)
FirstSep(s, sep, i) == IF i > Len(s) THEN 0 ELSE IF s[i] = sep THEN i ELSE FirstSep(s, sep, i + 1)

\* decimal value of a digit string; -1 when empty, -2 when it holds a non-digit
RECURSIVE NumAt(_, _, _)
NumAt(s, i, acc) == IF i > Len(s) THEN acc
                    ELSE IF ~IsDigit(s[i]) THEN -2
                    ELSE NumAt(s, i + 1, IF acc > 100000 THEN acc ELSE acc * 10 + s[i] - 48)
Num(s) == IF s = <<>> THEN -1 ELSE NumAt(s, 1, 0)

\* CSI parameters: sequence (split at ';') of sequences (split at ':') of numbers
Params(s) == LET top == Split(s, 59) IN
             [k \in 1..Len(top) |-> LET sub == Split(top[k], 58) IN [j \in 1..Len(sub) |-> Num(sub[j])]]

Def(n, d) == IF n < 0 THEN d ELSE n        \* default for an omitted parameter
P1(ps, k, d) == IF k <= Len(ps) THEN Def(ps[k][1], d) ELSE d

HexVal(b) == IF IsDigit(b) THEN b - 48 ELSE IF b >= 97 /\ b <= 102 THEN b - 87
             ELSE IF b >= 65 /\ b <= 70 THEN b - 55 ELSE -1

---------------------------------------------------------------------------
(* SGR *)

ColourOf(k) == <<1, k>>

\* consumes the parameters of an extended colour at position k of ps (ps[k][1] \in {38,48,58});
\* returns <<colour, next k>>; colour <<5,0>> if malformed
ExtColour(ps, k) ==
    LET p == ps[k] IN
    IF Len(p) > 1
    THEN \* colon form 38:5:n  38:2:r:g:b  38:2::r:g:b
         IF p[2] = 5 /\ Len(p) = 3 THEN <<ColourOf(p[3]), k + 1>>
         ELSE IF p[2] = 2 /\ Len(p) = 5 THEN <<<<2, p[3] * 65536 + p[4] * 256 + p[5]>>, k + 1>>
         ELSE IF p[2] = 2 /\ Len(p) = 6 THEN <<<<2, p[4] * 65536 + p[5] * 256 + p[6]>>, k + 1>>
         ELSE <<<<5, 0>>, k + 1>>
    ELSE IF k + 2 <= Len(ps) /\ ps[k+1][1] = 5 THEN <<ColourOf(ps[k+2][1]), k + 3>>
    ELSE IF k + 4 <= Len(ps) /\ ps[k+1][1] = 2
         THEN <<<<2, ps[k+2][1] * 65536 + ps[k+3][1] * 256 + ps[k+4][1]>>, k + 5>>
    ELSE <<<<5, 0>>, Len(ps) + 1>>

RECURSIVE Sgr(_, _, _)
Sgr(t, ps, k) ==
    IF k > Len(ps) THEN t
    ELSE LET n == Def(ps[k][1], 0) IN
      IF n \in {38, 48, 58} THEN
           LET ec == ExtColour(ps, k)
               t2 == IF ec[1][1] = 5 THEN [t EXCEPT !.bad = @ \cup {<<"sgr_colour", <<>>>>}]
                     ELSE IF n = 38 THEN [t EXCEPT !.fg = ec[1]]
                     ELSE IF n = 48 THEN [t EXCEPT !.bg = ec[1]]
                     ELSE [t EXCEPT !.uc = ec[1]]
           IN Sgr(t2, ps, ec[2])
      ELSE Sgr(
        CASE n = 0 -> [t EXCEPT !.fg = DefCol, !.bg = DefCol, !.at = 0, !.us = 0, !.uc = DefCol,
                                !.font = IF t.q.sgrfont THEN 0 ELSE @]
          [] n = 1 -> [t EXCEPT !.at = SetBit(@, 1)]
          [] n = 2 -> [t EXCEPT !.at = SetBit(@, 16)]
          [] n = 3 -> [t EXCEPT !.at = SetBit(@, 32)]
          [] n = 4 -> [t EXCEPT !.us = IF Len(ps[k]) > 1 THEN Def(ps[k][2], 1) ELSE 1]
          [] n = 5 -> [t EXCEPT !.at = SetBit(@, 2)]
          [] n = 7 -> [t EXCEPT !.at = SetBit(@, 4)]
          [] n = 9 -> [t EXCEPT !.at = SetBit(@, 64)]
          [] n = 10 -> [t EXCEPT !.font = 0]
          [] n \in {11, 12} -> IF t.q.sgrfont THEN [t EXCEPT !.font = n - 10]
                               ELSE [t EXCEPT !.unk = @ \cup {<<"sgr", n>>}]
          [] n = 21 -> [t EXCEPT !.us = 2]
          [] n = 22 -> [t EXCEPT !.at = ClrBit(ClrBit(@, 1), 16)]
          [] n = 23 -> [t EXCEPT !.at = ClrBit(@, 32)]
          [] n = 24 -> [t EXCEPT !.us = 0]
          [] n = 25 -> [t EXCEPT !.at = ClrBit(@, 2)]
          [] n = 27 -> [t EXCEPT !.at = ClrBit(@, 4)]
          [] n = 29 -> [t EXCEPT !.at = ClrBit(@, 64)]
          [] n >= 30 /\ n <= 37 -> [t EXCEPT !.fg = ColourOf(n - 30)]
          [] n = 39 -> [t EXCEPT !.fg = DefCol]
          [] n >= 40 /\ n <= 47 -> [t EXCEPT !.bg = ColourOf(n - 40)]
          [] n = 49 -> [t EXCEPT !.bg = DefCol]
          [] n = 59 -> [t EXCEPT !.uc = DefCol]
          [] n >= 90 /\ n <= 97 -> [t EXCEPT !.fg = ColourOf(n - 82)]
          [] n >= 100 /\ n <= 107 -> [t EXCEPT !.bg = ColourOf(n - 92)]
          [] OTHER -> [t EXCEPT !.unk = @ \cup {<<"sgr", n>>}],
        ps, k + 1)

---------------------------------------------------------------------------
(* Modes *)

SetDecMode(t, n, on) ==
    CASE n = 1    -> [t EXCEPT !.ckm = on]
      [] n = 7    -> [t EXCEPT !.aw = on, !.pend = IF on THEN @ ELSE FALSE]
      [] n = 25   -> [t EXCEPT !.vis = on]
      [] n \in {47, 1047} ->
            IF t.alt = on THEN t ELSE [t EXCEPT !.alt = on, !.g = [i \in 1..Len(t.g) |-> Garbage]]
      [] n = 1049 ->
            IF t.alt = on THEN t
            ELSE IF on THEN [t EXCEPT !.alt = TRUE, !.sc = <<t.cx, t.cy>>, !.g = [i \in 1..Len(t.g) |-> Garbage]]
            ELSE [GotoXY(t, t.sc[1], t.sc[2]) EXCEPT !.alt = FALSE, !.g = [i \in 1..Len(t.g) |-> Garbage]]
      [] n \in {1000, 1002, 1003, 1006} -> [t EXCEPT !.mouse = IF on THEN @ \cup {n} ELSE @ \ {n}]
      [] n = 1004 -> [t EXCEPT !.focus = on]
      [] n = 2004 -> [t EXCEPT !.paste = on]
      [] OTHER    -> [t EXCEPT !.modes = IF on THEN @ \cup {n} ELSE @ \ {n}]

RECURSIVE DecModes(_, _, _, _)
DecModes(t, ps, k, on) ==
    IF k > Len(ps) THEN t
    ELSE IF ps[k][1] < 0 THEN [t EXCEPT !.bad = @ \cup {<<"mode_param", <<>>>>}]
    ELSE DecModes(SetDecMode(t, ps[k][1], on), ps, k + 1, on)

---------------------------------------------------------------------------
(* Dispatch *)

\* private marker, parameter bytes, intermediates of a collected CSI body
CsiParts(buf) ==
    LET priv == IF Len(buf) > 0 /\ buf[1] >= 60 /\ buf[1] <= 63 THEN buf[1] ELSE 0
        rest == IF priv # 0 THEN Tail(buf) ELSE buf
        par  == SelectSeq(rest, LAMBDA b : b >= 48 /\ b <= 59)
        int  == SelectSeq(rest, LAMBDA b : b >= 32 /\ b <= 47)
    IN [priv |-> priv, par |-> par, int |-> int,
        okp |-> \A k \in 1..Len(rest) : rest[k] < 60]    \* private markers only in first position

DoCsi(t0, fin) ==
    LET t  == [t0 EXCEPT !.lx = "gnd", !.buf = <<>>]
        c  == CsiParts(t0.buf)
        ps == Params(c.par)
        numeric == \A k \in 1..Len(ps) : \A j \in 1..Len(ps[k]) : ps[k][j] # -2
        unk == [t EXCEPT !.unk = @ \cup {<<"csi", c.priv, c.par, c.int, fin>>}]
    IN
    IF ~c.okp \/ ~numeric THEN [t EXCEPT !.bad = @ \cup {<<"csi_param", <<>>>>}]
    ELSE IF c.priv = 0 /\ c.int = <<>> THEN
        CASE fin \in {72, 102} -> GotoXY(t, P1(ps, 2, 1) - 1, P1(ps, 1, 1) - 1)           \* H f
          [] fin = 65 -> GotoXY(t, t.cx, t.cy - P1(ps, 1, 1))                             \* A
          [] fin = 66 -> GotoXY(t, t.cx, t.cy + P1(ps, 1, 1))                             \* B
          [] fin = 67 -> GotoXY(t, t.cx + P1(ps, 1, 1), t.cy)                             \* C
          [] fin = 68 -> GotoXY(t, t.cx - P1(ps, 1, 1), t.cy)                             \* D
          [] fin = 74 -> LET n == P1(ps, 1, 0) IN                                        \* J
                         IF n = 2 THEN ClearAll(t)
                         ELSE IF n = 0 THEN EraseRange(t, Idx(t, t.cx, t.cy), t.W * t.H)
                         ELSE unk
          [] fin = 75 -> IF P1(ps, 1, 0) = 0                                              \* K
                         THEN EraseRange(t, Idx(t, t.cx, t.cy), Idx(t, t.W - 1, t.cy)) ELSE unk
          [] fin = 64 -> InsertChars(t, P1(ps, 1, 1))                                     \* @
          [] fin = 109 -> Sgr(t, IF c.par = <<>> THEN <<<<0>>>> ELSE ps, 1)                \* m
          [] fin \in {104, 108} ->                                                        \* h l (ANSI modes)
                [t EXCEPT !.amodes = IF fin = 104 THEN @ \cup {ps[k][1] : k \in 1..Len(ps)}
                                     ELSE @ \ {ps[k][1] : k \in 1..Len(ps)}]
          [] fin = 114 -> GotoXY(t, 0, 0)                                                 \* r DECSTBM
          [] fin = 116 ->                                                                 \* t window ops
                LET op == P1(ps, 1, 0) IN
                IF op = 22 THEN [t EXCEPT !.tstack = Append(@, t.title)]
                ELSE IF op = 23 THEN (IF t.tstack = <<>> THEN t
                                      ELSE [t EXCEPT !.title = t.tstack[Len(t.tstack)],
                                                     !.tstack = SubSeq(@, 1, Len(@) - 1)])
                ELSE IF op = 8 THEN [t EXCEPT !.winreq = <<P1(ps, 3, 0), P1(ps, 2, 0)>>]
                ELSE unk
          [] OTHER -> unk
    ELSE IF c.priv = 63 /\ c.int = <<>> THEN                                              \* CSI ? ...
        CASE fin = 104 -> DecModes(t, ps, 1, TRUE)
          [] fin = 108 -> DecModes(t, ps, 1, FALSE)
          [] fin = 99  -> [t EXCEPT !.lcur = P1(ps, 1, 0)]            \* linux cursor appearance
          [] OTHER -> unk
    ELSE IF c.priv = 0 /\ c.int = <<32>> /\ fin = 113 THEN [t EXCEPT !.shape = P1(ps, 1, 0)]  \* DECSCUSR
    ELSE IF c.priv = 0 /\ c.int = <<34>> /\ fin = 113 THEN t                                   \* DECSCA
    ELSE IF c.priv = 62 /\ c.int = <<>> /\ fin = 116 THEN t                                    \* CSI > 2 t
    ELSE unk

DoEsc(t0, fin) ==
    LET t == [t0 EXCEPT !.lx = "gnd", !.buf = <<>>]
        int == t0.buf
    IN IF int = <<>> THEN
          CASE fin = 55 -> [t EXCEPT !.sc = <<t.cx, t.cy>>]                     \* ESC 7
            [] fin = 56 -> GotoXY(t, t.sc[1], t.sc[2])                          \* ESC 8
            [] fin = 61 -> [t EXCEPT !.kpam = TRUE]                             \* ESC =
            [] fin = 62 -> [t EXCEPT !.kpam = FALSE]                            \* ESC >
            [] fin = 77 -> IF t.cy = 0 THEN [t EXCEPT !.scrolled = TRUE] ELSE [t EXCEPT !.cy = @ - 1]
            [] OTHER -> [t EXCEPT !.unk = @ \cup {<<"esc", int, fin>>}]
       ELSE IF int = <<40>> THEN [t EXCEPT !.g0 = fin]                          \* ESC ( f
       ELSE IF int = <<41>> THEN [t EXCEPT !.g1 = fin]                          \* ESC ) f
       ELSE [t EXCEPT !.unk = @ \cup {<<"esc", int, fin>>}]

DoOsc(t0) ==
    LET t == [t0 EXCEPT !.lx = "gnd", !.buf = <<>>]
        b == t0.buf
        k == FirstSep(b, 59, 1)
        n == Num(IF k = 0 THEN b ELSE SubSeq(b, 1, k - 1))
        rest == IF k = 0 THEN <<>> ELSE SubSeq(b, k + 1, Len(b))
    IN CASE n \in {0, 2} -> [t EXCEPT !.title = rest]
         [] n = 8 -> LET j == FirstSep(rest, 59, 1) IN
                     IF j = 0 THEN [t EXCEPT !.bad = @ \cup {<<"osc8", <<>>>>}]
                     ELSE LET id == SubSeq(rest, 1, j - 1)  url == SubSeq(rest, j + 1, Len(rest))
                          IN [t EXCEPT !.link = IF url = <<>> THEN <<>> ELSE <<url, id>>]
         [] n = 12 -> IF Len(rest) = 7 /\ rest[1] = 35 /\ \A i \in 2..7 : HexVal(rest[i]) >= 0
                      THEN [t EXCEPT !.ccol = <<2, HexVal(rest[2]) * 1048576 + HexVal(rest[3]) * 65536
                                   + HexVal(rest[4]) * 4096 + HexVal(rest[5]) * 256
                                   + HexVal(rest[6]) * 16 + HexVal(rest[7])>>]
                      ELSE [t EXCEPT !.ccol = <<5, 0>>]
         [] n = 112 -> [t EXCEPT !.ccol = DefCol]
         [] n = 52 -> [t EXCEPT !.clip = rest]
         [] OTHER -> [t EXCEPT !.unk = @ \cup {<<"osc", n>>}]

DoC0(t, b) ==
    CASE b = 7  -> [t EXCEPT !.bells = @ + 1]
      [] b = 8  -> [t EXCEPT !.cx = IF @ > 0 THEN @ - 1 ELSE 0, !.pend = FALSE, !.lp = 0]
      [] b = 10 -> LineFeed(t)
      [] b = 12 -> IF t.q.ffclear THEN GotoXY(ClearAll(t), 0, 0) ELSE LineFeed(t)
      [] b = 13 -> [t EXCEPT !.cx = 0, !.pend = FALSE, !.lp = 0]
      [] b = 14 -> [t EXCEPT !.sh = 1]
      [] b = 15 -> [t EXCEPT !.sh = 0]
      [] OTHER  -> [t EXCEPT !.bad = @ \cup {<<"c0", <<b>>>>}]

\* validity of a completed UTF-8 scalar: not overlong, not a surrogate, in range, not a C1 control
Utf8Ok(cp, len) ==
    /\ cp <= 1114111 /\ ~(cp >= 55296 /\ cp <= 57343)
    /\ (len = 2 => cp >= 128) /\ (len = 3 => cp >= 2048) /\ (len = 4 => cp >= 65536)

IsPrefixOf(a, b) == Len(a) <= Len(b) /\ SubSeq(b, 1, Len(a)) = a

\* legacy character sets: collect bytes until they spell a character of the table
MbStep(t, b) ==
    LET nb == Append(IF t.lx = "mb" THEN t.buf ELSE <<>>, b)
        hit == {p \in t.sbmap : p[1] = nb}
    IN IF hit # {} THEN PrintCp([t EXCEPT !.lx = "gnd", !.buf = <<>>], (CHOOSE p \in hit : TRUE)[2])
       ELSE IF \E p \in t.sbmap : IsPrefixOf(nb, p[1]) THEN [t EXCEPT !.lx = "mb", !.buf = nb]
       ELSE Bad(t, <<"undecodable", nb>>)

Step(t, b) ==
    CASE t.lx = "gnd" ->
           IF b = ESC THEN [t EXCEPT !.lx = "esc", !.buf = <<>>]
           ELSE IF b < 32 THEN (IF t.font # 0 /\ b \in t.q.fontctl THEN PrintCp(t, b) ELSE DoC0(t, b))
           ELSE IF b = 127 THEN [t EXCEPT !.bad = @ \cup {<<"del", <<>>>>}]
           ELSE IF b < 128 THEN PrintCp(t, b)
           ELSE IF t.cs = "utf8" THEN
                  IF b >= 194 /\ b <= 223 THEN [t EXCEPT !.lx = "u8", !.need = 1, !.acc = b - 192, !.buf = <<2>>]
                  ELSE IF b >= 224 /\ b <= 239 THEN [t EXCEPT !.lx = "u8", !.need = 2, !.acc = b - 224, !.buf = <<3>>]
                  ELSE IF b >= 240 /\ b <= 244 THEN [t EXCEPT !.lx = "u8", !.need = 3, !.acc = b - 240, !.buf = <<4>>]
                  ELSE [t EXCEPT !.bad = @ \cup {<<"utf8", <<>>>>}]
           ELSE IF t.font # 0 THEN PrintCp(t, b)      \* alternate font (CP437-style ACS): the byte is the glyph
           ELSE MbStep(t, b)
      \* (trail bytes may be digits: GB18030's four-byte codes are 81..FE 30..39 81..FE 30..39; a control byte ends it)
      [] t.lx = "mb" -> IF b < 48 THEN Bad(t, <<"undecodable", Append(t.buf, b)>>) ELSE MbStep(t, b)
      [] t.lx = "u8" ->
           IF b < 128 \/ b > 191 THEN Bad(t, <<"utf8", <<>>>>)
           ELSE LET acc == t.acc * 64 + (b - 128) IN
                IF t.need > 1 THEN [t EXCEPT !.need = @ - 1, !.acc = acc]
                ELSE LET t2 == [t EXCEPT !.lx = "gnd", !.buf = <<>>, !.need = 0] IN
                     IF ~Utf8Ok(acc, t.buf[1]) THEN [t2 EXCEPT !.bad = @ \cup {<<"utf8", <<>>>>}]
                     ELSE IF acc < 160 THEN [t2 EXCEPT !.bad = @ \cup {<<"c1", <<acc>>>>}]
                     ELSE PrintCp(t2, acc)
      [] t.lx = "esc" ->
           IF b = 91 THEN [t EXCEPT !.lx = "csi", !.buf = <<>>]
           ELSE IF b = 93 THEN [t EXCEPT !.lx = "osc", !.buf = <<>>]
           ELSE IF b \in {80, 88, 94, 95} THEN Bad(t, <<"string_sequence", <<>>>>)
           ELSE IF b >= 32 /\ b <= 47 THEN [t EXCEPT !.lx = "escI", !.buf = <<b>>]
           ELSE IF b >= 48 /\ b <= 126 THEN DoEsc(t, b)
           ELSE Bad(t, <<"esc_abort", <<>>>>)
      [] t.lx = "escI" ->
           IF b >= 32 /\ b <= 47 THEN [t EXCEPT !.buf = Append(@, b)]
           ELSE IF b >= 48 /\ b <= 126 THEN DoEsc(t, b)
           ELSE Bad(t, <<"esc_abort", <<>>>>)
      [] t.lx = "csi" ->
           IF b >= 48 /\ b <= 63
           THEN IF \E k \in 1..Len(t.buf) : t.buf[k] < 48 THEN Bad(t, <<"csi_param_after_intermediate", <<>>>>)
                ELSE [t EXCEPT !.buf = Append(@, b)]
           ELSE IF b >= 32 /\ b <= 47 THEN [t EXCEPT !.buf = Append(@, b)]
           ELSE IF b >= 64 /\ b <= 126 THEN DoCsi(t, b)
           ELSE Bad(t, <<"csi_byte", <<>>>>)
      [] t.lx = "osc" ->
           IF b = 7 THEN DoOsc(t)
           ELSE IF b = ESC THEN [t EXCEPT !.lx = "oscEsc"]
           ELSE IF b < 32 \/ b = 127 THEN Bad(t, <<"osc_control", <<>>>>)
           ELSE [t EXCEPT !.buf = Append(@, b)]
      [] t.lx = "oscEsc" ->
           IF b = 92 THEN DoOsc(t) ELSE Bad(t, <<"osc_unterminated", <<>>>>)

Feed(t, bytes) == FoldLeft(Step, t, bytes)

\* One Tty.Write block: stamped with a fresh number; the lexer must be back in ground state at its end.
FeedBlock(t, bytes) ==
    LET t1 == Feed([t EXCEPT !.stamp = @ + 1], bytes)
    IN IF t1.lx = "gnd" THEN t1 ELSE [t1 EXCEPT !.bad = @ \cup {<<"block_ends_inside_" \o t1.lx, <<>>>>}]

FeedBlocks(t, blocks) == FoldLeft(FeedBlock, t, blocks)

\* size change of the physical terminal: previous contents become arbitrary
Resized(t, W, H) ==
    [t EXCEPT !.W = W, !.H = H, !.g = [i \in 1..(W*H) |-> Garbage],
              !.cx = IF t.cx > W - 1 THEN (IF W > 0 THEN W - 1 ELSE 0) ELSE t.cx,
              !.cy = IF t.cy > H - 1 THEN (IF H > 0 THEN H - 1 ELSE 0) ELSE t.cy, !.pend = FALSE, !.lp = 0]
=============================================================================

-------------------------------- MODULE TermDB --------------------------------
(***************************************************************************)
(* C14: the built-in terminal database.                                    *)
(*                                                                         *)
(* Static part: every registered entry has cursor addressing, well-formed  *)
(* parameterized strings that use only the parameters tcell supplies,      *)
(* colour strings consistent with its colour count (checked by feeding     *)
(* them to the reference terminal) and prefix-free key sequences.          *)
(*                                                                         *)
(* Dynamic part: the SPECIFICATION of a lookup is a pure function of the   *)
(* original database and the environment, Synth(db, name, env); validating *)
(* a sequence of real lookups against it is the order-independence check.  *)
(* An entry is projected on the fields a lookup may synthesize; all other  *)
(* fields are represented by a digest computed by the harness.             *)
(***************************************************************************)
EXTENDS Integers, Sequences, FiniteSets

TP == INSTANCE TParm
TM == INSTANCE Term

Str256Fg   == <<27,91,37,63,37,112,49,37,123,56,125,37,60,37,116,51,37,112,49,37,100,37,101,37,112,49,37,123,49,54,125,37,60,37,116,57,37,112,49,37,123,56,125,37,45,37,100,37,101,51,56,59,53,59,37,112,49,37,100,37,59,109>>
Str256Bg   == <<27,91,37,63,37,112,49,37,123,56,125,37,60,37,116,52,37,112,49,37,100,37,101,37,112,49,37,123,49,54,125,37,60,37,116,49,48,37,112,49,37,123,56,125,37,45,37,100,37,101,52,56,59,53,59,37,112,49,37,100,37,59,109>>
Str256Fg256Bg == <<27,91,37,63,37,112,49,37,123,56,125,37,60,37,116,51,37,112,49,37,100,37,101,37,112,49,37,123,49,54,125,37,60,37,116,57,37,112,49,37,123,56,125,37,45,37,100,37,101,51,56,59,53,59,37,112,49,37,100,37,59,59,37,63,37,112,50,37,123,56,125,37,60,37,116,52,37,112,50,37,100,37,101,37,112,50,37,123,49,54,125,37,60,37,116,49,48,37,112,50,37,123,56,125,37,45,37,100,37,101,52,56,59,53,59,37,112,50,37,100,37,59,109>>
StrReset   == <<27,91,51,57,59,52,57,109>>
StrFgRGB   == <<27,91,51,56,59,50,59,37,112,49,37,100,59,37,112,50,37,100,59,37,112,51,37,100,109>>
StrBgRGB   == <<27,91,52,56,59,50,59,37,112,49,37,100,59,37,112,50,37,100,59,37,112,51,37,100,109>>
StrFgBgRGB == <<27,91,51,56,59,50,59,37,112,49,37,100,59,37,112,50,37,100,59,37,112,51,37,100,59,52,56,59,50,59,37,112,52,37,100,59,37,112,53,37,100,59,37,112,54,37,100,109>>

SfxTrue == <<45,116,114,117,101,99,111,108,111,114>>       \* -truecolor
Sfx256  == <<45,50,53,54,99,111,108,111,114>>              \* -256color
Sfx88   == <<45,56,56,99,111,108,111,114>>                 \* -88color
SfxCol  == <<45,99,111,108,111,114>>                       \* -color

HasSuffix(s, x) == Len(s) >= Len(x) /\ SubSeq(s, Len(s) - Len(x) + 1, Len(s)) = x
CutSuffix(s, x) == SubSeq(s, 1, Len(s) - Len(x))

NotFound == [found |-> FALSE]

\* db: sequence of <<name, projected entry>>
Find(db, name) == LET hits == {i \in 1..Len(db) : db[i][1] = name} IN
                  IF hits = {} THEN NotFound ELSE [found |-> TRUE, e |-> db[CHOOSE i \in hits : TRUE][2]]

\* env = [colorterm |-> bytes, tcelltc |-> bytes]
ColortermOn(env) == env.colorterm \in {<<116,114,117,101,99,111,108,111,114>>, <<50,52,98,105,116>>, <<50,52,45,98,105,116>>}

RECURSIVE Synth(_, _, _)
FirstFound(db, base, sfxs, env) ==
    LET hits == {k \in 1..Len(sfxs) : Synth(db, base \o sfxs[k], env).found} IN
    IF hits = {} THEN NotFound
    ELSE Synth(db, base \o sfxs[CHOOSE k \in hits : \A j \in hits : k <= j], env)

Synth(db, name, env) ==
    IF name = <<>> THEN NotFound
    ELSE
    LET direct == Find(db, name)
        viaTrue == IF ~direct.found /\ HasSuffix(name, SfxTrue)
                   THEN FirstFound(db, CutSuffix(name, SfxTrue), <<Sfx256, Sfx88, SfxCol, <<>>>>, env) ELSE NotFound
        via256 == IF ~direct.found /\ ~viaTrue.found /\ HasSuffix(name, Sfx256)
                  THEN FirstFound(db, CutSuffix(name, Sfx256), <<Sfx88, SfxCol>>, env) ELSE NotFound
        t == IF direct.found THEN direct ELSE IF viaTrue.found THEN viaTrue ELSE via256
    IN IF ~t.found THEN NotFound
       ELSE LET tc0 == ColortermOn(env) \/ (direct.found /\ t.e.TrueColor) \/ viaTrue.found
                tc  == IF env.tcelltc = <<>> THEN tc0
                       ELSE IF env.tcelltc = <<100,105,115,97,98,108,101>> THEN FALSE ELSE TRUE
                e1  == IF tc /\ t.e.SetFgRGB = <<>> /\ t.e.SetBgRGB = <<>> /\ t.e.SetFgBgRGB = <<>>
                       THEN [t.e EXCEPT !.SetFgRGB = StrFgRGB, !.SetBgRGB = StrBgRGB, !.SetFgBgRGB = StrFgBgRGB]
                       ELSE t.e
                e2  == IF via256.found
                       THEN [e1 EXCEPT !.Colors = 256, !.SetFg = Str256Fg, !.SetBg = Str256Bg, !.ResetFgBg = StrReset,
                                       !.SetFgBg = Str256Fg256Bg]
                       ELSE e1
            IN [found |-> TRUE, e |-> e2]

\* ---- static well-formedness of one full entry ----------------------------
\* caps: sequence of <<field name, string, params supplied>> for the parameterized fields
ParamDevs(caps) ==
    UNION { LET c == caps[i] IN
            (IF TP!WellFormed(c[2]) THEN {} ELSE {<<"malformed", c[1]>>})
            \cup (IF TP!MaxParam(c[2]) <= c[3] THEN {} ELSE {<<"uses_unsupplied_parameter", c[1]>>})
          : i \in 1..Len(caps) }

\* colour i selected by the colour string of an ECMA-48-family entry
PenAfter(prog, i) == LET out == TP!Eval(prog, <<TP!I(i)>>, TP!ZeroVars).out
                         t == TM!Feed(TM!NewTerm(2, 1, "utf8", <<>>, {}, {}, TM!NoQuirks), out)
                     IN <<t.fg, t.bg, t.bad, t.unk>>

ColourDevs(e) ==
    IF e.Colors = 0
    THEN (IF e.SetFg = <<>> /\ e.SetBg = <<>> THEN {} ELSE {<<"colour_strings_without_colours", "SetFg">>})
    ELSE (IF e.SetFg # <<>> /\ e.SetBg # <<>> THEN {} ELSE {<<"colours_without_strings", "SetFg">>})
         \cup (IF ~e.ecma \/ e.SetFg = <<>> \/ e.SetBg = <<>> THEN {}
               ELSE LET n == IF e.Colors > 256 THEN 256 ELSE e.Colors IN
                    UNION { LET f == PenAfter(e.SetFg, i)  b == PenAfter(e.SetBg, i) IN
                            (IF f[1] = <<1, i>> /\ f[2] = <<0, 0>> /\ f[3] = {} /\ f[4] = {} THEN {} ELSE {<<"setaf_selects_wrong_colour", i>>})
                            \cup (IF b[2] = <<1, i>> /\ b[1] = <<0, 0>> /\ b[3] = {} /\ b[4] = {} THEN {} ELSE {<<"setab_selects_wrong_colour", i>>})
                          : i \in 0..(n - 1) })

IsProperPrefix(a, b) == Len(a) < Len(b) /\ SubSeq(b, 1, Len(a)) = a
\* keys: sorted sequence of the distinct key sequences of the entry
KeyPrefixDevs(keys) == { <<"key_prefix", <<keys[i], keys[i + 1]>>>> : i \in {k \in 1..(Len(keys) - 1) : IsProperPrefix(keys[k], keys[k + 1])} }
=============================================================================

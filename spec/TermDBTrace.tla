----------------------------- MODULE TermDBTrace -----------------------------
(***************************************************************************)
(* Trace validation for C14: `vh termdb` dumps every registered entry      *)
(* (Entry events, static checks) and performs ordered pairs of lookups     *)
(* under the documented environment settings, each pair on a database      *)
(* restored from pristine copies (Lookup events).  Every lookup result is  *)
(* compared with Synth(original database, name, environment).              *)
(***************************************************************************)
EXTENDS TermDB, TLC, Json

Trace == ndJsonDeserialize("trace.ndjson")

VARIABLES l, db, nviol
vars == <<l, db, nviol>>

Dev(tag, part, info) == [tag |-> tag, part |-> part, info |-> info]

Step(e) ==
    CASE e.ev = "Entry" ->
           (IF e.cup THEN {} ELSE {Dev("C14.entry", "no_cursor_addressing", e.name)})
           \cup {Dev("C14.entry", d[1], <<e.name, d[2]>>) : d \in ParamDevs(e.caps)}
           \cup {Dev("C14.entry", d[1], <<e.name, d[2]>>) : d \in ColourDevs(e)}
           \cup {Dev("C14.entry", d[1], <<e.name, d[2]>>) : d \in KeyPrefixDevs(e.keys)}
      [] e.ev = "Lookup" ->
           LET want == Synth(db, e.name, e.env) IN
           IF want.found # e.found THEN {Dev("C14.lookup", IF e.found THEN "found_unknown" ELSE "not_found", <<e.name, e.env, e.first>>)}
           ELSE IF ~e.found THEN (IF e.notfound THEN {} ELSE {Dev("C14.lookup", "wrong_error", e.name)})
           ELSE IF want.e = e.e THEN {}
           ELSE {Dev("C14.lookup", IF e.first THEN "first_lookup" ELSE "after_other_lookup",
                     [name |-> e.name, env |-> e.env, prev |-> e.prev,
                      fields |-> {f \in DOMAIN want.e : want.e[f] # e.e[f]}])}
      [] e.ev = "Register" ->
           \* unknown at first; once registered it resolves, and so do the variants synthesized from it
           (IF e.unknown_before THEN {} ELSE {Dev("C14.lookup", "found_unknown", e.name)})
           \cup (IF e.found_after THEN {} ELSE {Dev("C14.lookup", "not_found_after_registration", e.name)})
           \* (NAME-256color is made from NAME-88color / NAME-color only, as Synth says: not required of a bare name)
           \cup (IF e.truecolor_after THEN {} ELSE {Dev("C14.lookup", "variant_not_found_after_registration", <<e.name, e.truecolor_after>>)})
      [] OTHER -> {}

Report(e, devs) == \A d \in devs : PrintT("@@V " \o ToJson(d @@ [l |-> l, ev |-> e.ev]))

Init == l = 1 /\ db = <<>> /\ nviol = 0
Next == /\ l <= Len(Trace)
        /\ l' = l + 1
        /\ LET e == Trace[l] IN
           IF e.ev = "Config" THEN db' = e.db /\ nviol' = nviol
           ELSE LET devs == Step(e) IN db' = db /\ Report(e, devs) /\ nviol' = nviol + Cardinality(devs)
Spec == Init /\ [][Next]_vars
Accepted == TLCGet("stats").diameter - 1 = Len(Trace)
Done == l > Len(Trace) => PrintT("@@DONE " \o ToString(nviol) \o " " \o ToString(Len(Trace)))
=============================================================================

------------------------------ MODULE Tokenizer ------------------------------
(***************************************************************************)
(* The input tokenizer of the terminfo screen (C02): the loop of           *)
(* collectEventsFromInput with its six parsers, tried in the order of the  *)
(* code, each answering "complete" (n > 0 bytes), "partial" (p) or "no";   *)
(* the fallback (lone ESC, Alt prefix, raw byte) runs only when no parser  *)
(* is partial or the escape timer has expired.                             *)
(*                                                                         *)
(* Pure operators over 7-bit byte sequences, shared by the design model    *)
(* (InputModel) and the trace specification (InputTrace), which predicts   *)
(* the events of every recorded 7-bit string from the key table of the     *)
(* terminal.  A language L is a record                                     *)
(*   keys   set of [seq, key, mod] - the key table, lone ESC excluded      *)
(*   mouse  the terminal has a mouse capability (X11 and SGR reports)      *)
(*   clip   OSC 52 replies are recognised                                  *)
(*   ps, pe key codes that stand for the paste brackets                    *)
(*   guard  a focus report is tried only when no key is still partial      *)
(*   strict a byte that belongs to no SGR report ends the SGR scan         *)
(*   utf8   the locale is UTF-8: bytes above 127 are decoded (a complete   *)
(*          valid sequence is a rune; anything else waits for more input   *)
(*          and is delivered byte by byte at the expiry); other character  *)
(*          sets are C11's subject and end the prediction (st.hi)          *)
(* guard and strict TRUE is the specification; FALSE is tcell as it was    *)
(* found (kept so that TLC can refute it).                                 *)
(*                                                                         *)
(* Output: st.out, a sequence of [k, src, ev]: kind, the bytes consumed,   *)
(* and the event as the harness logs it (<<"key", key, rune, mods>>,       *)
(* <<"mouse">>, <<"focus", 0|1>>, <<"paste", 0|1>>, <<"clip">>, or <<>>    *)
(* for the Alt prefix, which delivers nothing by itself).                  *)
(***************************************************************************)
EXTENDS Integers, Sequences, FiniteSets

TESC == 27
TIsPrefix(a, b) == Len(a) <= Len(b) /\ SubSeq(b, 1, Len(a)) = a
TDrop(s, n) == SubSeq(s, n + 1, Len(s))

TNo == [p |-> FALSE, n |-> 0]
TPart == [p |-> TRUE, n |-> 0]
TDone(n) == [p |-> TRUE, n |-> n]

\* ESC [ I  /  ESC [ O
FocusParse(b) ==
    IF b[1] # TESC THEN TNo
    ELSE IF Len(b) = 1 THEN TPart
    ELSE IF b[2] # 91 THEN TNo
    ELSE IF Len(b) = 2 THEN TPart
    ELSE IF b[3] \in {73, 79} THEN TDone(3) ELSE TNo

\* ESC [ M b x y, or 0x9b M b x y  - the three bytes after M are taken whatever they are
X11Parse(b) ==
    LET k == IF b[1] = 155 THEN 1 ELSE 2 IN           \* length of the introducer
    IF b[1] \notin {TESC, 155} THEN TNo
    ELSE IF k = 2 /\ Len(b) = 1 THEN TPart
    ELSE IF k = 2 /\ b[2] # 91 THEN TNo
    ELSE IF Len(b) = k THEN TPart
    ELSE IF b[k + 1] # 77 THEN TNo
    ELSE IF Len(b) < k + 4 THEN TPart
    ELSE TDone(k + 4)

\* ESC [ < btn ; x ; y (M | m), numbers optionally negative and possibly empty
\* q: [s |-> scanner state 0..5, dig, neg]
RECURSIVE SgrScan(_, _, _, _)
SgrScan(b, i, q, strict) ==
    IF i > Len(b) THEN TPart
    ELSE LET c == b[i]
             go(q2) == SgrScan(b, i + 1, q2, strict)
         IN CASE c = TESC -> IF q.s # 0 THEN TNo ELSE go([q EXCEPT !.s = 1])
              [] c = 155 -> IF q.s # 0 THEN TNo ELSE go([q EXCEPT !.s = 2])
              [] c = 91 -> IF q.s # 1 THEN TNo ELSE go([q EXCEPT !.s = 2])
              [] c = 60 -> IF q.s # 2 THEN TNo ELSE go([s |-> 3, dig |-> FALSE, neg |-> FALSE])
              [] c = 45 -> IF q.s \notin {3, 4, 5} \/ q.dig \/ q.neg THEN TNo ELSE go([q EXCEPT !.neg = TRUE])
              [] c \in 48..57 -> IF q.s \notin {3, 4, 5} THEN TNo ELSE go([q EXCEPT !.dig = TRUE])
              [] c = 59 -> IF q.s \in {3, 4} THEN go([s |-> q.s + 1, dig |-> FALSE, neg |-> FALSE]) ELSE TNo
              [] c \in {77, 109} -> IF q.s = 5 THEN TDone(i) ELSE TNo
              [] OTHER -> IF strict THEN TNo ELSE go(q)
SgrParse(b, strict) == SgrScan(b, 1, [s |-> 0, dig |-> FALSE, neg |-> FALSE], strict)

\* ESC ] 5 2 ; c ; base64* (BEL | ESC \)
ClipPrefix == <<27, 93, 53, 50, 59, 99, 59>>
B64(c) == c \in 65..90 \/ c \in 97..122 \/ c \in 48..57 \/ c \in {43, 47, 61}
RECURSIVE ClipScan(_, _, _)
ClipScan(b, i, esc) ==
    IF i > Len(b) THEN TPart
    ELSE LET c == b[i] IN
         IF esc THEN (IF c = 92 THEN TDone(i) ELSE TNo)
         ELSE IF B64(c) THEN ClipScan(b, i + 1, FALSE)
         ELSE IF c = TESC THEN ClipScan(b, i + 1, TRUE)
         ELSE IF c = 7 THEN TDone(i)
         ELSE TNo
ClipParse(b) ==
    IF Len(b) <= Len(ClipPrefix) THEN (IF TIsPrefix(b, ClipPrefix) THEN TPart ELSE TNo)
    ELSE IF ~TIsPrefix(ClipPrefix, b) THEN TNo
    ELSE ClipScan(b, Len(ClipPrefix) + 1, FALSE)

\* length of the complete, valid UTF-8 sequence at the head of b (0: none - invalid or not all there yet)
U8Len(b) ==
    LET c == b[1]
        n == IF c >= 194 /\ c <= 223 THEN 2 ELSE IF c >= 224 /\ c <= 239 THEN 3 ELSE IF c >= 240 /\ c <= 244 THEN 4 ELSE 0
        lo == IF c = 224 THEN 160 ELSE IF c = 240 THEN 144 ELSE 128
        hi == IF c = 237 THEN 159 ELSE IF c = 244 THEN 143 ELSE 191
    IN IF n = 0 \/ Len(b) < n THEN 0
       ELSE IF b[2] >= lo /\ b[2] <= hi /\ \A k \in 3..n : b[k] >= 128 /\ b[k] <= 191 THEN n ELSE 0
U8Val(b, n) ==
    CASE n = 2 -> (b[1] - 192) * 64 + (b[2] - 128)
      [] n = 3 -> (b[1] - 224) * 4096 + (b[2] - 128) * 64 + (b[3] - 128)
      [] OTHER -> (b[1] - 240) * 262144 + (b[2] - 128) * 4096 + (b[3] - 128) * 64 + (b[4] - 128)

Alt(st) == IF st.esc THEN 4 ELSE 0
Or4(m, st) == IF st.esc /\ (m \div 4) % 2 = 0 THEN m + 4 ELSE m

\* the event of a raw control byte (NewEventKey turns it into the control key, Ctrl unless typeable)
RawKey(c, st) == IF c > 127 THEN <<"key", 256, c, Alt(st)>>
                 ELSE <<"key", c, c, IF st.esc THEN 4 ELSE IF c \in {8, 9, 13, 27} THEN 0 ELSE 2>>

Emit(st, kind, n, ev, esc) ==
    [st EXCEPT !.buf = TDrop(@, n), !.esc = esc,
               !.out = Append(@, [k |-> kind, src |-> SubSeq(st.buf, 1, n), ev |-> ev])]

\* st = [buf, esc, out, amb, hi]: amb - two key sequences matched at once (the code takes whichever its map yields
\* first); hi - a byte above 127 reached the front of the buffer (character-set decoding is C11's subject)
RECURSIVE Collect(_, _, _)
Collect(L, st, expire) ==
    IF st.buf = <<>> \/ st.hi THEN st
    ELSE
    LET b == st.buf
        keyC == {k \in L.keys : TIsPrefix(k.seq, b)}
        keyP == \E k \in L.keys : TIsPrefix(b, k.seq)
        u8 == IF b[1] > 127 THEN U8Len(b) ELSE 0
        runeP == b[1] > 127 /\ u8 = 0                        \* possibly the beginning of a character
        focTried == ~L.guard \/ (~keyP /\ ~runeP) \/ expire
        foc == IF focTried THEN FocusParse(b) ELSE TNo
        x11 == IF L.mouse THEN X11Parse(b) ELSE TNo
        sgr == IF L.mouse THEN SgrParse(b, L.strict) ELSE TNo
        clp == IF L.clip THEN ClipParse(b) ELSE TNo
        partial == runeP \/ keyP \/ foc.p \/ x11.p \/ sgr.p \/ clp.p
    IN IF b[1] > 127 /\ ~L.utf8 THEN [st EXCEPT !.hi = TRUE]
       ELSE IF u8 > 0 THEN
            \* U+FFFD is consumed without an event (the decoder's error value)
            LET v == U8Val(b, u8) IN
            Collect(L, Emit(st, "rune", u8, IF v = 65533 THEN <<>> ELSE <<"key", 256, v, Alt(st)>>, IF v = 65533 THEN st.esc ELSE FALSE), expire)
       ELSE IF b[1] >= 32 /\ b[1] <= 127 THEN
            Collect(L, Emit(st, "rune", 1, <<"key", IF b[1] = 127 THEN 127 ELSE 256, b[1], Alt(st)>>, FALSE), expire)
       ELSE IF keyC # {} THEN
            LET k == CHOOSE k \in keyC : \A k2 \in keyC : Len(k2.seq) <= Len(k.seq)
                ev == IF k.key = L.ps THEN <<"paste", 1>> ELSE IF k.key = L.pe THEN <<"paste", 0>>
                      ELSE <<"key", k.key, IF Len(k.seq) = 1 THEN b[1] ELSE 0, Or4(k.mod, st)>>
            IN Collect(L, [Emit(st, "key", Len(k.seq), ev, FALSE) EXCEPT !.amb = @ \/ Cardinality(keyC) > 1], expire)
       ELSE IF foc.n > 0 THEN Collect(L, Emit(st, "focus", 3, <<"focus", IF b[3] = 73 THEN 1 ELSE 0>>, st.esc), expire)
       ELSE IF x11.n > 0 THEN Collect(L, Emit(st, "x11", x11.n, <<"mouse">>, st.esc), expire)
       ELSE IF sgr.n > 0 THEN Collect(L, Emit(st, "sgr", sgr.n, <<"mouse">>, st.esc), expire)
       ELSE IF clp.n > 0 THEN Collect(L, Emit(st, "clip", clp.n, <<"clip">>, st.esc), expire)
       ELSE IF ~partial \/ expire THEN
            IF b[1] = TESC THEN
                 IF Len(b) = 1 THEN Collect(L, Emit(st, "esc", 1, <<"key", 27, 0, 0>>, FALSE), expire)
                 ELSE Collect(L, Emit(st, "alt", 1, <<>>, TRUE), expire)
            ELSE Collect(L, Emit(st, "raw", 1, RawKey(b[1], st), FALSE), expire)
       ELSE st                                            \* some parser is partial: wait for the next read

TEmpty == [buf |-> <<>>, esc |-> FALSE, out |-> <<>>, amb |-> FALSE, hi |-> FALSE]

\* feed the reads one after the other, then let the escape timer expire
RECURSIVE FeedAll(_, _, _)
FeedAll(L, st, chunks) ==
    IF chunks = <<>> THEN Collect(L, st, TRUE)
    ELSE FeedAll(L, Collect(L, [st EXCEPT !.buf = @ \o chunks[1]], FALSE), Tail(chunks))

Decode(L, bytes) == FeedAll(L, TEmpty, <<bytes>>)
Events(st) == LET o == SelectSeq(st.out, LAMBDA x : x.ev # <<>>) IN [i \in 1..Len(o) |-> o[i].ev]

---------------------------------------------------------------------------
(* What each kind of token may consume: the languages of the reports.      *)

Digits(s) == \A i \in 1..Len(s) : s[i] \in 48..57
Num(s) == Digits(s) \/ (Len(s) >= 1 /\ s[1] = 45 /\ Digits(TDrop(s, 1)))
SgrLang(s) ==
    LET k == IF s[1] = 155 THEN 2 ELSE 3 IN          \* 0x9b < ... or ESC [ < ...
    /\ Len(s) >= k + 3 /\ (SubSeq(s, 1, 3) = <<27, 91, 60>> \/ SubSeq(s, 1, 2) = <<155, 60>>) /\ s[Len(s)] \in {77, 109}
    /\ LET body == SubSeq(s, k + 1, Len(s) - 1)
           semis == {i \in 1..Len(body) : body[i] = 59}
       IN /\ Cardinality(semis) = 2
          /\ LET i1 == CHOOSE i \in semis : \A j \in semis : i <= j
                 i2 == CHOOSE i \in semis : i # i1
             IN Num(SubSeq(body, 1, i1 - 1)) /\ Num(SubSeq(body, i1 + 1, i2 - 1)) /\ Num(SubSeq(body, i2 + 1, Len(body)))

InLanguage(L, x) ==
    CASE x.k = "rune" -> (Len(x.src) = 1 /\ x.src[1] \in 32..127) \/ (x.src[1] > 127 /\ U8Len(x.src) = Len(x.src))
      [] x.k = "key" -> \E k \in L.keys : k.seq = x.src
      [] x.k = "focus" -> x.src \in {<<27, 91, 73>>, <<27, 91, 79>>}
      [] x.k = "x11" -> (Len(x.src) = 6 /\ SubSeq(x.src, 1, 3) = <<27, 91, 77>>) \/ (Len(x.src) = 5 /\ SubSeq(x.src, 1, 2) = <<155, 77>>)
      [] x.k = "sgr" -> SgrLang(x.src)
      [] x.k = "clip" -> TIsPrefix(ClipPrefix, x.src)
      [] x.k \in {"esc", "alt"} -> x.src = <<27>>
      [] x.k = "raw" -> Len(x.src) = 1 /\ (x.src[1] < 32 \/ x.src[1] > 127)
      [] OTHER -> FALSE

RECURSIVE Concat(_)
Concat(ss) == IF ss = <<>> THEN <<>> ELSE ss[1] \o Concat(Tail(ss))
\* every byte is attributed to exactly one token, and every token consumed a word of its own language
Attributed(L, st, bytes) ==
    /\ Concat([i \in 1..Len(st.out) |-> st.out[i].src]) \o st.buf = bytes
    /\ \A i \in 1..Len(st.out) : InLanguage(L, st.out[i])
=============================================================================

-------------------------------- MODULE Views --------------------------------
(***************************************************************************)
(* C20: ViewPort translation / clamping and BoxLayout geometry, integers   *)
(* only.  The requirement predicates (Probe-, Clamp- and Layout-operators) are     *)
(* stated on OBSERVED geometry so that the trace spec can apply them to    *)
(* what the real code reports; the Vp-operators transcribe views/view.go  *)
(* for the design model.                                                   *)
(***************************************************************************)
EXTENDS Integers, Sequences, FiniteSets

\* ---- requirement: translation -------------------------------------------
\* g = [px, py, vx, vy, w, h]: origin in the parent, scroll offset, size
Inside(g, x, y) == x >= g.vx /\ x < g.vx + g.w /\ y >= g.vy /\ y < g.vy + g.h
ParentPos(g, x, y) == <<x - g.vx + g.px, y - g.vy + g.py>>
InRect(g, p) == p[1] >= g.px /\ p[1] < g.px + g.w /\ p[2] >= g.py /\ p[2] < g.py + g.h

\* probe = <<x, y, reached, X, Y>>: content position, whether the parent was called, and where
ProbeWrong(g, p) ==
    IF p[3] # Inside(g, p[1], p[2]) THEN {IF p[3] THEN "reached_outside_window" ELSE "lost_inside_window"}
    ELSE IF ~p[3] THEN {}
    ELSE (IF <<p[4], p[5]>> = ParentPos(g, p[1], p[2]) THEN {} ELSE {"wrong_position"})
         \cup (IF InRect(g, <<p[4], p[5]>>) THEN {} ELSE {"outside_rectangle"})

\* ---- requirement: clamping ----------------------------------------------
ClampOK(off, size, lim) == off >= 0 /\ (lim > size => off + size <= lim)

\* ---- transcription of the ViewPort operations (design model) ------------
ValidateX(v) == LET a == IF v.vx > v.lx - v.w THEN v.lx - v.w ELSE v.vx IN [v EXCEPT !.vx = IF a < 0 THEN 0 ELSE a]
ValidateY(v) == LET a == IF v.vy > v.ly - v.h THEN v.ly - v.h ELSE v.vy IN [v EXCEPT !.vy = IF a < 0 THEN 0 ELSE a]
Validate(v) == ValidateY(ValidateX(v))

VpScrollUp(v, n) == ValidateY([v EXCEPT !.vy = @ - n])
VpScrollDown(v, n) == ValidateY([v EXCEPT !.vy = @ + n])
VpScrollLeft(v, n) == ValidateX([v EXCEPT !.vx = @ - n])
VpScrollRight(v, n) == ValidateX([v EXCEPT !.vx = @ + n])
VpCenter(v, x, y) == IF x < 0 \/ y < 0 \/ x >= v.lx \/ y >= v.ly THEN v
                     ELSE Validate([v EXCEPT !.vx = x - (v.w \div 2), !.vy = y - (v.h \div 2)])
VpMakeVisible(v, x, y) ==
    LET a == IF x < v.lx /\ x >= v.vx + v.w THEN [v EXCEPT !.vx = x - (v.w - 1)] ELSE v
        b == IF x >= 0 /\ x < a.vx THEN [a EXCEPT !.vx = x] ELSE a
        c == IF y < b.ly /\ y >= b.vy + b.h THEN [b EXCEPT !.vy = y - (b.h - 1)] ELSE b
        d == IF y >= 0 /\ y < c.vy THEN [c EXCEPT !.vy = y] ELSE c
    IN Validate(d)
VpSetSize(v, w, h) == Validate([v EXCEPT !.w = w, !.h = h])
VpSetContentSize(v, w, h, locked) == Validate([v EXCEPT !.lx = w, !.ly = h, !.locked = locked])
VpSetContent(v, x, y) == [v EXCEPT !.lx = IF x > @ /\ ~v.locked THEN x ELSE @, !.ly = IF y > @ /\ ~v.locked THEN y ELSE @]
\* Resize against a parent of size PW x PH
VpResize(v, PW, PH, x, y, w, h) ==
    LET w1 == IF w < 0 \/ w > PW - x THEN PW - x ELSE w
        h1 == IF h < 0 \/ h > PH - y THEN PH - y ELSE h
    IN [v EXCEPT !.px = IF x >= 0 /\ x < PW THEN x ELSE @, !.py = IF y >= 0 /\ y < PH THEN y ELSE @, !.w = w1, !.h = h1]

\* ---- requirement: BoxLayout geometry -------------------------------------
\* horiz: TRUE for a horizontal layout.  kids[i] = [x, y, w, h, pw, ph, fill]: the rectangle the child was
\* given (relative to the layout's view), its preferred size and its fill factor (an integer).
\* W, H: size of the layout's own view.
Along(k, horiz) == IF horiz THEN k.w ELSE k.h
Pref(k, horiz) == IF horiz THEN k.pw ELSE k.ph
Start(k, horiz) == IF horiz THEN k.x ELSE k.y
RECURSIVE SumSeq(_, _)
SumSeq(s, i) == IF i > Len(s) THEN 0 ELSE s[i] + SumSeq(s, i + 1)
NonEmpty(k) == k.w > 0 /\ k.h > 0
Overlap(a, b) == a.x < b.x + b.w /\ b.x < a.x + a.w /\ a.y < b.y + b.h /\ b.y < a.y + a.h

LayoutWrong(horiz, W, H, kids) ==
    LET n == Len(kids)
        avail == IF horiz THEN W ELSE H
        prefs == [i \in 1..n |-> Pref(kids[i], horiz)]
        total == SumSeq(prefs, 1)
        fills == [i \in 1..n |-> kids[i].fill]
        F == SumSeq(fills, 1)
        surplus == IF avail - total > 0 THEN avail - total ELSE 0
        fits == total <= avail
        live == {i \in 1..n : NonEmpty(kids[i])}
    IN (IF \A i \in live, j \in live : i < j => ~Overlap(kids[i], kids[j]) THEN {} ELSE {"children_overlap"})
       \cup (IF \A i \in live : kids[i].x >= 0 /\ kids[i].y >= 0 /\ kids[i].x + kids[i].w <= W /\ kids[i].y + kids[i].h <= H
             THEN {} ELSE {"child_outside_view"})
       \cup (IF \A i \in live, j \in live : i < j => Start(kids[i], horiz) + Along(kids[i], horiz) <= Start(kids[j], horiz)
             THEN {} ELSE {"children_out_of_order"})
       \cup (IF ~fits \/ \A i \in 1..n : Along(kids[i], horiz) >= prefs[i] THEN {} ELSE {"child_below_preferred_extent"})
       \cup (IF ~fits \/ F = 0 THEN {}
             ELSE LET pads == [i \in 1..n |-> Along(kids[i], horiz) - prefs[i]] IN
                  (IF SumSeq(pads, 1) = surplus THEN {} ELSE {"surplus_not_distributed_exactly"})
                  \cup (IF \A i \in 1..n : LET lo == (surplus * fills[i]) \div F IN
                                            pads[i] = lo \/ (pads[i] = lo + 1 /\ (surplus * fills[i]) % F # 0)
                        THEN {} ELSE {"padding_not_proportional"}))
       \cup (IF ~fits \/ F # 0 \/ \A i \in 1..n : Along(kids[i], horiz) = prefs[i] THEN {} ELSE {"padding_without_fill"})
=============================================================================

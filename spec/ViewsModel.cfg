SPECIFICATION Spec
CONSTANTS
  MaxC = 3
  MaxOps = 3
  GEN = FALSE
VIEW View
ACTION_CONSTRAINT EmitH
INVARIANTS ClampInv TranslateInv
CHECK_DEADLOCK FALSE

----------------------------- MODULE ViewsModel -----------------------------
(***************************************************************************)
(* Design model for the ViewPort half of C20: all sequences (<= MaxOps) of *)
(* the ViewPort operations over small coordinates.  Invariant ClampInv is  *)
(* the statement's clause, required on an axis after an operation that     *)
(* moved that axis (and after SetContentSize / SetSize on both);           *)
(* TranslateInv states that what a SetContent would do is inside the       *)
(* occupied rectangle.  GEN prints one history per transition.             *)
(***************************************************************************)
EXTENDS Views, TLC, Json

CONSTANTS MaxC, MaxOps, GEN
VARIABLES v, hist, movedx, movedy
vars == <<v, hist, movedx, movedy>>

C == -1..MaxC
PW == MaxC
PH == MaxC

Init == /\ v = VpResize([px |-> 0, py |-> 0, vx |-> 0, vy |-> 0, lx |-> 2, ly |-> 2, w |-> 0, h |-> 0, locked |-> FALSE], PW, PH, 0, 0, 2, 2)
        /\ hist = <<>> /\ movedx = FALSE /\ movedy = FALSE

Ops == [op : {"ScrollUp", "ScrollDown", "ScrollLeft", "ScrollRight"}, n : (-2)..MaxC]     \* negative amounts scroll the other way
       \cup [op : {"Center", "MakeVisible", "SetContent"}, x : C, y : C]
       \cup [op : {"SetSize"}, w : 0..MaxC, h : 0..MaxC]
       \cup [op : {"SetContentSize"}, w : 0..MaxC, h : 0..MaxC, locked : BOOLEAN]
       \cup [op : {"Resize"}, x : C, y : C, w : C, h : C]

Apply(s, o) ==
    CASE o.op = "ScrollUp" -> VpScrollUp(s, o.n) [] o.op = "ScrollDown" -> VpScrollDown(s, o.n)
      [] o.op = "ScrollLeft" -> VpScrollLeft(s, o.n) [] o.op = "ScrollRight" -> VpScrollRight(s, o.n)
      [] o.op = "Center" -> VpCenter(s, o.x, o.y) [] o.op = "MakeVisible" -> VpMakeVisible(s, o.x, o.y)
      [] o.op = "SetContent" -> VpSetContent(s, o.x, o.y)
      [] o.op = "SetSize" -> VpSetSize(s, o.w, o.h)
      [] o.op = "SetContentSize" -> VpSetContentSize(s, o.w, o.h, o.locked)
      [] o.op = "Resize" -> VpResize(s, PW, PH, o.x, o.y, o.w, o.h)

Next == /\ Len(hist) < MaxOps
        /\ \E o \in Ops :
             LET s == Apply(v, o) IN
             /\ v' = s /\ hist' = Append(hist, o)
             /\ movedx' = (o.op \in {"SetSize", "SetContentSize"} \/ s.vx # v.vx)
             /\ movedy' = (o.op \in {"SetSize", "SetContentSize"} \/ s.vy # v.vy)
Spec == Init /\ [][Next]_vars
View == <<v, movedx, movedy, Len(hist)>>

ClampInv == (movedx => ClampOK(v.vx, v.w, v.lx)) /\ (movedy => ClampOK(v.vy, v.h, v.ly))
TranslateInv == \A x \in C, y \in C :
                   Inside(v, x, y) => InRect(v, ParentPos(v, x, y))
EmitH == (GEN /\ hist' # hist) => PrintT("@@B " \o ToJson(hist'))
=============================================================================

----------------------------- MODULE ViewsTrace -----------------------------
(***************************************************************************)
(* Trace validation for C20.  `vh views` drives real views.ViewPort and    *)
(* views.BoxLayout objects over a recording parent View.  After every      *)
(* ViewPort call it logs the reported geometry and a grid of probes        *)
(* (SetContent at content position (x,y): did the parent get a call, and   *)
(* where); after every BoxLayout change it logs each child's rectangle,    *)
(* preferred size, fill factor and the bounding box / count of the parent  *)
(* cells the child drew.                                                   *)
(***************************************************************************)
EXTENDS Views, TLC, Json

Trace == ndJsonDeserialize("trace.ndjson")
VARIABLES l, nviol
vars == <<l, nviol>>

Dev(tag, part, info) == [tag |-> tag, part |-> part, info |-> info]
ClampOps == {"ScrollUp", "ScrollDown", "ScrollLeft", "ScrollRight", "Center", "MakeVisible", "SetContentSize", "SetSize"}

ProbeDevs(e) == UNION { {Dev("C20.translate", p, [op |-> e.op, g |-> e.g, probe |-> e.probes[i]]) : p \in ProbeWrong(e.g, e.probes[i])}
                        : i \in 1..Len(e.probes) }

ClampDevs(e) ==
    IF e.ev # "VpOp" \/ e.op \notin ClampOps THEN {}
    ELSE LET both == e.op \in {"SetContentSize", "SetSize"}
             mx == both \/ e.g.vx # e.before[1]
             my == both \/ e.g.vy # e.before[2]
         IN (IF mx /\ ~ClampOK(e.g.vx, e.g.w, e.lim[1]) THEN {Dev("C20.clamp", "x", [op |-> e.op, g |-> e.g, lim |-> e.lim])} ELSE {})
            \cup (IF my /\ ~ClampOK(e.g.vy, e.g.h, e.lim[2]) THEN {Dev("C20.clamp", "y", [op |-> e.op, g |-> e.g, lim |-> e.lim])} ELSE {})

\* a child that is itself a BoxLayout (k.nest = <<[horiz, kids]>>): the same rules inside the rectangle it was given;
\* its leaves' view coordinates are relative to that rectangle, what they paint is absolute
NestedDevs(e, i) ==
    LET k == e.kids[i] IN
    IF Len(k.nest) = 0 \/ ~NonEmpty(k) THEN {}
    ELSE LET n == k.nest[1] IN
         {Dev("C20.layout", "nested_" \o p, [op |-> e.op, child |-> i, horiz |-> n.horiz, W |-> k.w, H |-> k.h, kids |-> n.kids])
            : p \in LayoutWrong(n.horiz, k.w, k.h, n.kids)}
         \* the preferred size a layout reports is that of its children now: extents summed along its axis, the largest across
         \cup (LET pws == [j \in 1..Len(n.kids) |-> n.kids[j].pw]  phs == [j \in 1..Len(n.kids) |-> n.kids[j].ph]
                   mx(q) == IF Len(q) = 0 THEN 0 ELSE CHOOSE v \in {q[j] : j \in 1..Len(q)} : \A j \in 1..Len(q) : q[j] <= v
                   wantw == IF n.horiz THEN SumSeq(pws, 1) ELSE mx(pws)
                   wanth == IF n.horiz THEN mx(phs) ELSE SumSeq(phs, 1)
               IN IF k.pw = wantw /\ k.ph = wanth THEN {}
                  ELSE {Dev("C20.layout", "nested_preferred_size_stale", [op |-> e.op, child |-> i, got |-> <<k.pw, k.ph>>, want |-> <<wantw, wanth>>])})
         \cup UNION { LET g == n.kids[j] IN
                      IF ~NonEmpty(g) THEN (IF g.drawn[5] = 0 THEN {} ELSE {Dev("C20.layout", "nested_empty_child_drew", <<i, j, g.drawn>>)})
                      ELSE IF g.x < 0 \/ g.y < 0 \/ g.x + g.w > k.w \/ g.y + g.h > k.h THEN {}      \* reported by LayoutWrong
                      ELSE (IF g.drawn[5] = g.w * g.h /\ g.drawn[1] = k.x + g.x /\ g.drawn[2] = k.y + g.y
                               /\ g.drawn[3] = k.x + g.x + g.w - 1 /\ g.drawn[4] = k.y + g.y + g.h - 1 THEN {}
                            ELSE {Dev("C20.layout", "nested_child_drawing_not_its_rectangle", <<i, j, k.x, k.y, g.x, g.y, g.w, g.h, g.drawn>>)})
                    : j \in 1..Len(n.kids) }

\* Resize(x, y, w, h) against a parent of P[1] x P[2]: a negative or too large extent reaches to the parent's edge
\* (documented), so the rectangle never leaves the parent and never has a negative side
ResizeDevs(e) ==
    IF e.ev # "VpOp" \/ e.op # "Resize" THEN {}
    ELSE LET x == e.a[2]  y == e.a[3]  w == e.a[4]  h == e.a[5]
             w1 == IF w < 0 \/ w > e.P[1] - x THEN e.P[1] - x ELSE w
             h1 == IF h < 0 \/ h > e.P[2] - y THEN e.P[2] - y ELSE h
         IN IF e.g.w = w1 /\ e.g.h = h1 THEN {} ELSE {Dev("C20.resize", "extent", [a |-> e.a, P |-> e.P, g |-> e.g])}

\* Fill / Clear through the ViewPort: exactly the cells of its rectangle, each once (f = <<minx, miny, maxx, maxy, calls, cells>>)
FillDevs(e) ==
    LET f == e.fill  n == IF e.g.w > 0 /\ e.g.h > 0 THEN e.g.w * e.g.h ELSE 0 IN
    IF f[5] = n /\ f[6] = n /\ (n = 0 \/ (f[1] = e.g.px /\ f[2] = e.g.py /\ f[3] = e.g.px + e.g.w - 1 /\ f[4] = e.g.py + e.g.h - 1))
    THEN {} ELSE {Dev("C20.translate", "fill_not_the_rectangle", [op |-> e.op, g |-> e.g, fill |-> f])}

\* Reset: back to the origin, no content recorded; size and place unchanged (those are in g and checked by the probes)
ResetDevs(e) ==
    IF e.ev # "VpOp" \/ e.op # "Reset" THEN {}
    ELSE IF e.g.vx = 0 /\ e.g.vy = 0 /\ e.lim = <<0, 0>> THEN {} ELSE {Dev("C20.clamp", "reset", [g |-> e.g, lim |-> e.lim])}

LayoutDevs(e) ==
    {Dev("C20.layout", p, [op |-> e.op, horiz |-> e.horiz, W |-> e.W, H |-> e.H, kids |-> e.kids]) : p \in LayoutWrong(e.horiz, e.W, e.H, e.kids)}
    \cup UNION { NestedDevs(e, i) : i \in 1..Len(e.kids) }
    \cup UNION { LET k == e.kids[i] IN
                 IF Len(k.nest) = 1 THEN {}        \* a nested layout paints through its leaves (NestedDevs)
                 ELSE IF ~NonEmpty(k) THEN (IF k.drawn[5] = 0 THEN {} ELSE {Dev("C20.layout", "empty_child_drew", <<i, k.drawn>>)})
                 ELSE (IF k.drawn[5] = k.w * k.h /\ k.drawn[1] = k.x /\ k.drawn[2] = k.y
                          /\ k.drawn[3] = k.x + k.w - 1 /\ k.drawn[4] = k.y + k.h - 1 THEN {}
                       ELSE {Dev("C20.layout", "child_drawing_not_its_rectangle", <<i, k.x, k.y, k.w, k.h, k.drawn>>)})
               : i \in 1..Len(e.kids) }
    \cup (IF e.ids = e.wids THEN {} ELSE {Dev("C20.layout", "widgets_not_in_order", <<e.ids, e.wids>>)})
    \cup (IF e.overdraw = 0 THEN {} ELSE {Dev("C20.layout", "cells_drawn_by_two_children", e.overdraw)})

AllDevs(e) == IF e.ev \in {"VpNew", "VpOp"} THEN ProbeDevs(e) \cup ClampDevs(e) \cup ResizeDevs(e) \cup FillDevs(e) \cup ResetDevs(e)
              ELSE IF e.ev = "Layout" THEN LayoutDevs(e)
              \* a documented call that panics leaves no state of which the property could hold
              ELSE IF e.ev = "Panic" THEN {Dev("C20.panic", e.area, [op |-> e.op, msg |-> e.msg])} ELSE {}

Report(e, devs) == \A d \in devs : PrintT("@@V " \o ToJson(d @@ [l |-> l, ev |-> e.ev]))
Init == l = 1 /\ nviol = 0
Next == /\ l <= Len(Trace) /\ l' = l + 1
        /\ LET e == Trace[l] devs == AllDevs(e) IN Report(e, devs) /\ nviol' = nviol + Cardinality(devs)
Spec == Init /\ [][Next]_vars
Accepted == TLCGet("stats").diameter - 1 = Len(Trace)
Done == l > Len(Trace) => PrintT("@@DONE " \o ToString(nviol) \o " " \o ToString(Len(Trace)))
=============================================================================

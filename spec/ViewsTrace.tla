----------------------------- MODULE ViewsTrace -----------------------------
(***************************************************************************)
(* Trace validation for C20.  `vh views` drives real views.ViewPort and    *)
(* views.BoxLayout objects over a recording parent View.  After every      *)
(* ViewPort call it logs the reported geometry and a grid of probes        *)
(* (SetContent at content position (x,y): did the parent get a call, and   *)
(* where); after every BoxLayout change it logs each child's rectangle,    *)
(* preferred size, fill factor and the bounding box / count of the parent  *)
(* cells the child drew.                                                   *)
(***************************************************************************)
EXTENDS Views, TLC, Json

Trace == ndJsonDeserialize("trace.ndjson")
VARIABLES l, nviol
vars == <<l, nviol>>

Dev(tag, part, info) == [tag |-> tag, part |-> part, info |-> info]
ClampOps == {"ScrollUp", "ScrollDown", "ScrollLeft", "ScrollRight", "Center", "MakeVisible", "SetContentSize", "SetSize"}

ProbeDevs(e) == UNION { {Dev("C20.translate", p, [op |-> e.op, g |-> e.g, probe |-> e.probes[i]]) : p \in ProbeWrong(e.g, e.probes[i])}
                        : i \in 1..Len(e.probes) }

ClampDevs(e) ==
    IF e.ev # "VpOp" \/ e.op \notin ClampOps THEN {}
    ELSE LET both == e.op \in {"SetContentSize", "SetSize"}
             mx == both \/ e.g.vx # e.before[1]
             my == both \/ e.g.vy # e.before[2]
         IN (IF mx /\ ~ClampOK(e.g.vx, e.g.w, e.lim[1]) THEN {Dev("C20.clamp", "x", [op |-> e.op, g |-> e.g, lim |-> e.lim])} ELSE {})
            \cup (IF my /\ ~ClampOK(e.g.vy, e.g.h, e.lim[2]) THEN {Dev("C20.clamp", "y", [op |-> e.op, g |-> e.g, lim |-> e.lim])} ELSE {})

LayoutDevs(e) ==
    {Dev("C20.layout", p, [op |-> e.op, horiz |-> e.horiz, W |-> e.W, H |-> e.H, kids |-> e.kids]) : p \in LayoutWrong(e.horiz, e.W, e.H, e.kids)}
    \cup UNION { LET k == e.kids[i] IN
                 IF ~NonEmpty(k) THEN (IF k.drawn[5] = 0 THEN {} ELSE {Dev("C20.layout", "empty_child_drew", <<i, k.drawn>>)})
                 ELSE (IF k.drawn[5] = k.w * k.h /\ k.drawn[1] = k.x /\ k.drawn[2] = k.y
                          /\ k.drawn[3] = k.x + k.w - 1 /\ k.drawn[4] = k.y + k.h - 1 THEN {}
                       ELSE {Dev("C20.layout", "child_drawing_not_its_rectangle", <<i, k.x, k.y, k.w, k.h, k.drawn>>)})
               : i \in 1..Len(e.kids) }
    \cup (IF e.overdraw = 0 THEN {} ELSE {Dev("C20.layout", "cells_drawn_by_two_children", e.overdraw)})

AllDevs(e) == IF e.ev \in {"VpNew", "VpOp"} THEN ProbeDevs(e) \cup ClampDevs(e)
              ELSE IF e.ev = "Layout" THEN LayoutDevs(e)
              \* a documented call that panics leaves no state of which the property could hold
              ELSE IF e.ev = "Panic" THEN {Dev("C20.panic", e.area, [op |-> e.op, msg |-> e.msg])} ELSE {}

Report(e, devs) == \A d \in devs : PrintT("@@V " \o ToJson(d @@ [l |-> l, ev |-> e.ev]))
Init == l = 1 /\ nviol = 0
Next == /\ l <= Len(Trace) /\ l' = l + 1
        /\ LET e == Trace[l] devs == AllDevs(e) IN Report(e, devs) /\ nviol' = nviol + Cardinality(devs)
Spec == Init /\ [][Next]_vars
Accepted == TLCGet("stats").diameter - 1 = Len(Trace)
Done == l > Len(Trace) => PrintT("@@DONE " \o ToString(nviol) \o " " \o ToString(Len(Trace)))
=============================================================================

----------------------------- MODULE WScreenTrace -----------------------------
(***************************************************************************)
(* C19: the js/wasm screen.  The trace comes from the wasm harness running *)
(* under Node with recording stand-ins for webfiles/tcell.js: every call   *)
(* into JavaScript (drawCell, clearScreen, resize, ...) is a "js" event    *)
(* between the Show / ShowEnd markers of the draw that caused it.          *)
(*   PageOK      after Show/Sync the page grid equals the logical screen   *)
(*   OnlyChanged a Show draws only changed cells (and wide partners)       *)
(*   KeyOK MouseOK PasteOK FocusOK   callbacks become the right events     *)
(*   NoWedge     every order of Suspend/Resume/SetSize/Fini returns        *)
(***************************************************************************)
EXTENDS Integers, Sequences, FiniteSets, TLC, Json, Color

Trace == ndJsonDeserialize("trace.ndjson")
CB == INSTANCE CellBuf
VARIABLES l, cb, s, nviol
vars == <<l, cb, s, nviol>>

DefaultStyle == CB!DefaultStyle
Dev(tag, part, info) == [tag |-> tag, part |-> part, info |-> info]
Bit(n, b) == (n \div b) % 2 = 1

\* the 16 basic colours as xterm paints them by default
Basic16 == <<0, 13434880, 52480, 13487360, 238, 13435085, 52685, 15066597,
             8355711, 16711680, 65280, 16776960, 6053119, 16711935, 65535, 16777215>>
Rgb(col, dflt) == CASE col[1] = 2 -> col[2]
                    [] col[1] = 1 -> IF col[2] < 16 THEN Basic16[col[2] + 1] ELSE XtermRGB(col[2])
                    [] OTHER -> dflt

\* page cell the statement requires for a logical cell: <<text, fg, bg, attrs, ulstyle, ulcolour>>
ExpCell(c, def) ==
    LET st == IF c.st = DefaultStyle THEN def ELSE c.st
        r == IF c.wc = 0 \/ c.cp < 32 THEN 32 ELSE c.cp
    IN <<<<r>> \o c.comb, Rgb(st[1], 15066597), Rgb(st[2], 0), st[3], st[4], Rgb(st[5], 0)>>

InitS == [def |-> DefaultStyle, defs |-> {DefaultStyle}, page |-> <<>>, pw |-> 0, ph |-> 0, drawing |-> FALSE, sync |-> FALSE,
          drawn |-> {}, chg |-> {}, free |-> TRUE, pvis |-> <<>>]

Changed(b, b2) == IF b.w # b2.w \/ b.h # b2.h THEN {}
                  ELSE {i \in 1..Len(b.cells) : b.cells[i].cp # b2.cells[i].cp \/ b.cells[i].comb # b2.cells[i].comb \/ b.cells[i].st # b2.cells[i].st}

\* which cells are covered by a wide rune to their left (row-major)
RECURSIVE CoveredRow(_, _, _)
CoveredRow(b, y, x) == IF x >= b.w THEN {}
                       ELSE IF b.cells[CB!Idx(b, x, y)].wc = 2 THEN {CB!Idx(b, x + 1, y)} \cup CoveredRow(b, y, x + 2)
                       ELSE CoveredRow(b, y, x + 1)
Covered(b) == UNION {CoveredRow(b, y, 0) : y \in 0..(b.h - 1)} \cap (1..(b.w * b.h))

PageDevs(b, st) ==
    LET cov == Covered(b) IN
    UNION { IF i \in cov \/ (b.cells[i].wc = 2 /\ i % b.w = 0) THEN {}      \* hidden half / wide rune in the last column: not stated
            ELSE LET want == {ExpCell(b.cells[i], d) : d \in st.defs} IN
                 IF i <= Len(st.page) /\ st.page[i] \in want THEN {}
                 ELSE {Dev("C19.page", "cell", <<i, IF i <= Len(st.page) THEN st.page[i] ELSE <<>>, ExpCell(b.cells[i], st.def)>>)}
          : i \in 1..Len(b.cells) }

KeyExpected(c, e) ==
    LET mods == (IF e.shift THEN 1 ELSE 0) + (IF e.ctrl THEN 2 ELSE 0) + (IF e.alt THEN 4 ELSE 0) + (IF e.meta THEN 8 ELSE 0)
        named == CASE e.name = "Enter" -> c.kEnter [] e.name = "Backspace" -> c.kBackspace [] e.name = "Tab" -> c.kTab
                   [] e.name = "Escape" -> c.kEsc [] e.name = "Delete" -> c.kDelete [] e.name = "Insert" -> c.kInsert
                   [] e.name = "ArrowUp" -> c.kUp [] e.name = "ArrowDown" -> c.kDown [] e.name = "ArrowLeft" -> c.kLeft
                   [] e.name = "ArrowRight" -> c.kRight [] e.name = "Home" -> c.kHome [] e.name = "End" -> c.kEnd
                   [] e.name = "F1" -> c.kF1 [] e.name = "F2" -> c.kF1 + 1 [] e.name = "F5" -> c.kF1 + 4
                   [] e.name = "F12" -> c.kF1 + 11 [] e.name = "F13" -> c.kF1 + 12 [] e.name = "F64" -> c.kF1 + 63
                   [] OTHER -> -1
    IN IF named # -1 THEN {<<"key", named, 0, mods>>}
       ELSE IF mods = 2 /\ Len(e.runes) = 1 /\ e.runes[1] >= 97 /\ e.runes[1] <= 122
            THEN {<<"key", e.runes[1] - 96, 0, 2>>}                                               \* Ctrl-letter
       ELSE IF mods = 2 /\ Len(e.runes) = 1 /\ e.runes[1] >= 65 /\ e.runes[1] <= 90
            THEN {<<"key", e.runes[1] - 64, 0, 2>>, <<"key", c.kRune, e.runes[1], 2>>}
       ELSE IF mods = 2 /\ e.runes = <<32>> THEN {<<"key", 0, 0, 2>>, <<"key", c.kRune, 32, 2>>}
       ELSE {<<"key", c.kRune, e.runes[1], mods>>}

MouseExpected(e) ==
    LET mods == (IF e.shift THEN 1 ELSE 0) + (IF e.ctrl THEN 2 ELSE 0) + (IF e.alt THEN 4 ELSE 0)
        btn == CASE e.which = 1 -> 1 [] e.which = 2 -> 4 [] e.which = 3 -> 2 [] OTHER -> 0
        wanted == IF e.cb = "onMouseClick" THEN Bit(e.flags, 1)
                  ELSE (Bit(e.flags, 2) \/ Bit(e.flags, 4)) /\ (e.which # 0 \/ Bit(e.flags, 4))
    IN IF wanted THEN <<<<"mouse", e.x, e.y, btn, mods>>>> ELSE <<>>
\* a click callback that names no button is not a report a browser makes: nothing is required of it
MouseChecked(e) == ~(e.cb = "onMouseClick" /\ e.which = 0)

Handle(e, c) ==
    CASE e.ev = "SetContent" -> LET b1 == CB!ReqSetContent(cb, e.x, e.y, e.cp, e.wc, e.comb, e.st)
                                    ch == Changed(cb, b1)
                                    pa == {i + 1 : i \in {j \in ch : j % cb.w # 0 /\ (cb.cells[j].wc = 2 \/ b1.cells[j].wc = 2)}}
                                    \* a draw stores ' ' in a cell that held NUL, so writing NUL again changes the cell
                                    nul == IF e.cp = 0 /\ e.x >= 0 /\ e.y >= 0 /\ e.x < cb.w /\ e.y < cb.h THEN {CB!Idx(cb, e.x, e.y)} ELSE {}
                                IN <<b1, [s EXCEPT !.chg = @ \cup ch \cup pa \cup nul], {}>>
      [] e.ev = "Fill" -> LET b1 == CB!ReqFill(cb, e.cp, e.wc, e.st) IN
                          <<b1, [s EXCEPT !.chg = @ \cup Changed(cb, b1) \cup (IF e.cp = 0 THEN 1..Len(cb.cells) ELSE {})], {}>>
      [] e.ev = "SetStyle" -> <<cb, [s EXCEPT !.def = e.st, !.defs = @ \cup {e.st}], {}>>
      [] e.ev = "SetSize" -> <<CB!ReqResize(cb, e.w, e.h), [s EXCEPT !.free = TRUE], {}>>
      [] e.ev \in {"Show", "Sync"} -> <<cb, [s EXCEPT !.drawing = TRUE, !.drawn = {}, !.sync = e.ev = "Sync"], {}>>
      [] e.ev = "js" ->
           IF e.f = "resize" THEN <<cb, [s EXCEPT !.pw = e.w, !.ph = e.h, !.page = [i \in 1..(e.w * e.h) |-> <<>>]], {}>>
           ELSE IF e.f = "clearScreen" THEN <<cb, [s EXCEPT !.page = [i \in 1..Len(s.page) |-> <<>>]], {}>>
           ELSE IF e.f = "drawCell" THEN
                LET i == e.y * s.pw + e.x + 1 IN
                IF e.x < 0 \/ e.y < 0 \/ e.x >= s.pw \/ e.y >= s.ph
                THEN <<cb, s, {Dev("C19.page", "draw_outside_page", <<e.x, e.y>>)}>>
                ELSE <<cb, [s EXCEPT !.page[i] = <<e.s, e.fg, e.bg, e.at, e.us, e.uc>>, !.drawn = @ \cup {i}],
                       IF s.drawing THEN {} ELSE {Dev("C19.page", "draw_outside_show", <<e.x, e.y>>)}>>
           ELSE <<cb, s, {}>>
      [] e.ev = "ShowEnd" ->
           LET allowed == s.chg \cup {i + 1 : i \in s.chg} \cup {i - 1 : i \in s.chg}
               extra == IF s.free \/ s.sync THEN {} ELSE s.drawn \ allowed
           IN <<cb, [s EXCEPT !.drawing = FALSE, !.chg = {}, !.free = FALSE],
                PageDevs(cb, s)
                \cup (IF cb.w = s.pw /\ cb.h = s.ph THEN {} ELSE {Dev("C19.page", "size", <<cb.w, cb.h, s.pw, s.ph>>)})
                \cup {Dev("C19.only_changed", "extra_draw", i) : i \in extra}>>
      [] e.ev = "Key" -> <<cb, s, IF Len(e.evs) = 1 /\ e.evs[1] \in KeyExpected(c, e) THEN {}
                                  ELSE {Dev("C19.key", e.name, <<e.shift, e.alt, e.ctrl, e.meta, e.evs>>)}>>
      [] e.ev = "ModKey" -> <<cb, s, IF e.evs = <<>> THEN {} ELSE {Dev("C19.key", e.name, e.evs)}>>
      [] e.ev = "Mouse" -> <<cb, s, IF ~MouseChecked(e) \/ e.evs = MouseExpected(e) THEN {}
                                    ELSE {Dev("C19.mouse", e.cb, <<e.flags, e.which, e.evs>>)}>>
      [] e.ev = "Paste" -> <<cb, s, IF e.evs = (IF e.enabled THEN <<<<"paste", IF e.start THEN 1 ELSE 0>>>> ELSE <<>>) THEN {}
                                    ELSE {Dev("C19.paste", "event", <<e.enabled, e.start, e.evs>>)}>>
      [] e.ev = "Focus" -> <<cb, s, IF e.evs = (IF e.enabled THEN <<<<"focus", IF e.focused THEN 1 ELSE 0>>>> ELSE <<>>) THEN {}
                                    ELSE {Dev("C19.focus", "event", <<e.enabled, e.focused, e.evs>>)}>>
      [] e.ev = "Lifecycle" -> <<cb, s, IF e.wedged = "" THEN {} ELSE {Dev("C19.wedge", e.wedged, e.seq)}>>
      [] e.ev = "Build" -> <<cb, s, IF e.ok THEN {} ELSE {Dev("C19.build", "compile", e.msg)}>>
      [] e.ev = "Error" -> <<cb, s, {Dev("C19.error", "harness", e.msg)}>>
      [] OTHER -> <<cb, s, {}>>

VARIABLE kc
Report(e, devs) == \A d \in devs : PrintT("@@V " \o ToJson(d @@ [l |-> l, ev |-> e.ev]))
Init == l = 1 /\ cb = CB!ReqResize(CB!EmptyBuf, 80, 24) /\ s = InitS /\ nviol = 0 /\ kc = [kRune |-> 256]
Next == /\ l <= Len(Trace) /\ l' = l + 1
        /\ LET e == Trace[l] IN
           IF e.ev = "Reset" THEN cb' = CB!ReqResize(CB!EmptyBuf, 80, 24) /\ s' = [InitS EXCEPT !.pw = 80, !.ph = 24, !.page = [i \in 1..1920 |-> <<>>]]
                                  /\ nviol' = nviol /\ kc' = kc
           ELSE IF e.ev = "KeyConfig" THEN cb' = cb /\ s' = s /\ nviol' = nviol /\ kc' = e
           ELSE LET r == Handle(e, kc) IN cb' = r[1] /\ s' = r[2] /\ kc' = kc /\ Report(e, r[3]) /\ nviol' = nviol + Cardinality(r[3])
Spec == Init /\ [][Next]_<<vars, kc>>
Accepted == TLCGet("stats").diameter - 1 = Len(Trace)
Done == l > Len(Trace) => PrintT("@@DONE " \o ToString(nviol) \o " " \o ToString(Len(Trace)))
=============================================================================

----------------------------- MODULE DevTtyInd -----------------------------
(* Typed copy of the device-Tty model (DevTty.tla) for Apalache: the safety invariants are shown to be
   inductive, i.e. to hold in every reachable state whatever the number of bytes typed and of Start/Stop
   cycles (which the TLC configuration bounds by MaxTyped and Cycles). *)
EXTENDS Integers, Sequences

\* the bytes a terminal can send (two are enough to tell order and loss apart)
Bytes == {1, 2}

VARIABLES
    \* @type: Str;
    st,
    \* @type: Str;
    tio,
    \* @type: Str;
    saved,
    \* @type: Seq(Int);
    typed,
    \* @type: Seq(Int);
    inq,
    \* @type: Seq(Int);
    got,
    \* @type: Str;
    reader,
    \* @type: Bool;
    cb,
    \* @type: Int;
    calls,
    \* @type: Int;
    signals

\* line settings abstracted to the three values the contract distinguishes
Raw(t) == "raw"
Drained(t) == "raw0"

Init == /\ st = "new" /\ tio = "orig" /\ saved = "orig" /\ typed = <<>> /\ inq = <<>> /\ got = <<>>
        /\ reader = "none" /\ cb = FALSE /\ calls = 0 /\ signals = 0

Start == /\ st \in {"new", "stopped"}
         /\ saved' = tio /\ tio' = Raw(tio) /\ st' = "started" /\ reader' = "blocked"
         /\ UNCHANGED <<typed, inq, got, cb, calls, signals>>
Type == /\ st = "started"
        /\ \E b \in Bytes : typed' = Append(typed, b) /\ inq' = Append(inq, b)
        /\ UNCHANGED <<st, tio, saved, got, reader, cb, calls, signals>>
Read == /\ reader = "blocked" /\ Len(inq) > 0 /\ st = "started"
        /\ got' = got \o inq /\ inq' = <<>>
        /\ UNCHANGED <<st, tio, saved, typed, reader, cb, calls, signals>>
Drain == /\ st = "started" /\ st' = "drained" /\ tio' = Drained(tio)
         /\ got' = got \o inq /\ inq' = <<>> /\ reader' = "ended"
         /\ UNCHANGED <<saved, typed, cb, calls, signals>>
Stop == /\ st = "drained" /\ st' = "stopped" /\ tio' = saved
        /\ UNCHANGED <<saved, typed, inq, got, reader, cb, calls, signals>>
SetCb == /\ cb' = ~cb /\ UNCHANGED <<st, tio, saved, typed, inq, got, reader, calls, signals>>
Winch == /\ signals' = signals + 1
         /\ calls' = IF cb /\ st \in {"started", "drained"} THEN calls + 1 ELSE calls
         /\ UNCHANGED <<st, tio, saved, typed, inq, got, reader, cb>>
Next == Start \/ Type \/ Read \/ Drain \/ Stop \/ SetCb \/ Winch

TypeOK == /\ st \in {"new", "started", "drained", "stopped"}
          /\ tio \in {"orig", "raw", "raw0"} /\ saved \in {"orig", "raw", "raw0"}
          /\ reader \in {"none", "blocked", "ended"}
Restored == st \in {"new", "stopped"} => tio = "orig"
RawInside == st = "started" => tio = "raw"
NoLoss == got \o inq = typed
Unblocked == st \in {"drained", "stopped"} => reader = "ended"
CallsBounded == calls <= signals /\ calls >= 0
\* strengthening: the saved settings are always the original ones, and the reader state follows st
SavedOrig == saved = "orig"
ReaderSt == (st = "new" => reader = "none") /\ (st = "started" => reader = "blocked")
DrainedTio == st = "drained" => tio = "raw0"

IndInv == TypeOK /\ Restored /\ RawInside /\ NoLoss /\ Unblocked /\ CallsBounded /\ SavedOrig /\ ReaderSt /\ DrainedTio
\* an arbitrary state satisfying the invariant (sequences of length <= 3 suffice for one step)
IndInit ==
    /\ st \in {"new", "started", "drained", "stopped"}
    /\ tio \in {"orig", "raw", "raw0"} /\ saved \in {"orig", "raw", "raw0"}
    /\ reader \in {"none", "blocked", "ended"}
    /\ cb \in BOOLEAN /\ calls \in 0..3 /\ signals \in 0..3
    /\ \E a, b \in {<<>>} \cup {<<x>> : x \in Bytes} \cup {<<x, y>> : x \in Bytes, y \in Bytes} :
         got = a /\ inq = b /\ typed = a \o b
    /\ IndInv
=============================================================================
